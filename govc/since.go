package govc

// since(E, S): the number of occurrences of event E after the last occurrence of event S. Implemented as
// cnt(E) - snap, where snap is E's counter as it was at the last S (a ghost variable per pair, updated where S is
// emitted, moved forward by an unknown amount where a callee may emit S).

import "sort"

func snapVar(e, s string) string { return "G.snap." + e + "@" + s }

func (eng *Engine) sincePairs() map[[2]string]bool {
	if eng.sinceCache != nil {
		return eng.sinceCache
	}
	out := map[[2]string]bool{}
	var visit func(e *CExpr)
	visit = func(e *CExpr) {
		if e == nil {
			return
		}
		if e.Op == "call" && len(e.Args) == 3 && e.Args[0].Op == "id" && e.Args[0].Name == "since" && e.Args[1].Op == "id" && e.Args[2].Op == "id" {
			out[[2]string{e.Args[1].Name, e.Args[2].Name}] = true
		}
		for _, a := range e.Args {
			visit(a)
		}
	}
	for _, fc := range eng.DB.Funcs {
		for _, c := range fc.Requires {
			visit(c.Expr)
		}
		for _, c := range fc.Ensures {
			visit(c.Expr)
		}
		for _, l := range fc.Loops {
			for _, c := range l {
				visit(c.Expr)
			}
		}
	}
	for _, sf := range eng.DB.Specs {
		visit(sf.Body)
	}
	eng.sinceCache = out
	return out
}

func (eng *Engine) sincePair(e, s string) bool { return eng.sincePairs()[[2]string{e, s}] }

// sinceOf: the events E for which since(E, s) is used somewhere
func (eng *Engine) sinceOf(s string) []string {
	var out []string
	for p := range eng.sincePairs() {
		if p[1] == s {
			out = append(out, p[0])
		}
	}
	sort.Strings(out)
	return out
}
