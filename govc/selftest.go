package govc

import (
	"encoding/json"
	"fmt"
	"os"
	"os/exec"
	"path/filepath"
	"sort"
	"strings"
)

type MutantResult struct {
	Name    string   `json:"name"`
	Applied bool     `json:"applied"`
	Killed  bool     `json:"killed"`
	Exit    int      `json:"exit"`
	Failed  []string `json:"failed_obligations"`
	Tests   string   `json:"tests,omitempty"`
}

// SelfTest applies every must-fail patch of the property to a scratch copy of the repository's working tree
// and expects the check to report a violation. The scratch copy lives outside /repo and /verif and is removed.
func SelfTest(id, repo string, runTests bool, only string) ([]MutantResult, error) {
	patches := corpusPatches(id)
	if len(patches) == 0 {
		return nil, nil
	}
	scratch, err := os.MkdirTemp("", "govc-mut-"+id+"-")
	if err != nil {
		return nil, err
	}
	defer os.RemoveAll(scratch)
	dst := filepath.Join(scratch, "repo")
	if out, err := exec.Command("rsync", "-a", "--exclude", ".git", repo+"/", dst+"/").CombinedOutput(); err != nil {
		return nil, fmt.Errorf("rsync: %v %s", err, out)
	}
	var results []MutantResult
	for _, p := range patches {
		name := strings.TrimSuffix(filepath.Base(p), ".patch")
		if filepath.Base(p) == "patch.diff" {
			name = "seeded:" + filepath.Base(filepath.Dir(p))
		}
		if only != "" && !strings.Contains(name, only) {
			continue
		}
		mr := MutantResult{Name: name}
		cmd := exec.Command("git", "apply", "--whitespace=nowarn", p)
		cmd.Dir = dst
		if out, err := cmd.CombinedOutput(); err != nil {
			mr.Applied = false
			mr.Tests = strings.TrimSpace(string(out))
			results = append(results, mr)
			continue
		}
		mr.Applied = true
		if runTests {
			t := exec.Command("go", "test", "-vet=off", "-count=1", "./...")
			t.Dir = dst
			t.Env = append(os.Environ(), "GOFLAGS=-mod=mod", "GOPROXY=off", "GOSUMDB=off", "GOTOOLCHAIN=local")
			if out, err := t.CombinedOutput(); err != nil {
				mr.Tests = "FAIL: " + truncate(lastLines(string(out), 12), 1500)
			} else {
				mr.Tests = "pass"
			}
		}
		r := RunCheck(id, "quick", dst, 0, false, true, false)
		mr.Exit = r.Exit
		mr.Killed = r.Exit == 1
		mr.Failed = r.Failed
		results = append(results, mr)
		rev := exec.Command("git", "apply", "-R", "--whitespace=nowarn", p)
		rev.Dir = dst
		if out, err := rev.CombinedOutput(); err != nil {
			return results, fmt.Errorf("cannot revert %s: %v %s", name, err, out)
		}
	}
	return results, nil
}

// corpusPatches: the must-fail corpus of a property: hand-made mutants (/verif/mutants/<id>/*.patch) and the changes
// seeded by independent sub-agents (/verif/seeded/*/patch.diff whose meta.json names the property)
func corpusPatches(id string) []string {
	patches, _ := filepath.Glob(filepath.Join(VerifDir, "mutants", id, "*.patch"))
	sort.Strings(patches)
	seeded, _ := filepath.Glob(filepath.Join(VerifDir, "seeded", "*", "patch.diff"))
	sort.Strings(seeded)
	for _, sp := range seeded {
		b, err := os.ReadFile(filepath.Join(filepath.Dir(sp), "meta.json"))
		if err != nil {
			continue
		}
		var meta struct {
			Property  string   `json:"property"`
			AlsoCheck []string `json:"also_check"`
			Missed    []string `json:"not_detected_by"`
		}
		if json.Unmarshal(b, &meta) != nil {
			continue
		}
		use := meta.Property == id
		for _, a := range meta.AlsoCheck {
			if a == id {
				use = true
			}
		}
		for _, m := range meta.Missed {
			if m == id {
				use = false
			}
		}
		if use {
			patches = append(patches, sp)
		}
	}
	return patches
}

func lastLines(s string, n int) string {
	l := strings.Split(strings.TrimSpace(s), "\n")
	if len(l) > n {
		l = l[len(l)-n:]
	}
	return strings.Join(l, "\n")
}

func SelfTestMain(args []string) int {
	if len(args) < 1 {
		fmt.Fprintln(os.Stderr, "usage: selftest <property> [--tests] [--only substr]")
		return 2
	}
	runTests := false
	only := ""
	for i := 1; i < len(args); i++ {
		switch args[i] {
		case "--tests":
			runTests = true
		case "--only":
			i++
			only = args[i]
		}
	}
	// silence the per-mutant VIOLATION lines
	res, err := SelfTest(args[0], "/repo", runTests, only)
	if err != nil {
		fmt.Fprintln(os.Stderr, err)
		return 2
	}
	survivors := 0
	for _, r := range res {
		st := "KILLED  "
		if !r.Applied {
			st = "SKIPPED "
		} else if !r.Killed {
			st = "SURVIVED"
			survivors++
		}
		fmt.Printf("%s %-45s exit=%d tests=%s %s\n", st, r.Name, r.Exit, r.Tests, strings.Join(r.Failed, "; "))
	}
	b, _ := json.MarshalIndent(res, "", " ")
	os.MkdirAll(filepath.Join(VerifDir, "out"), 0o755)
	os.WriteFile(filepath.Join(VerifDir, "out", "selftest-"+args[0]+".json"), b, 0o644)
	if survivors > 0 {
		return 1
	}
	return 0
}
