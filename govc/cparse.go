package govc

// Contract-expression language: lexer + Pratt parser producing a small AST.
// Grammar (lowest to highest precedence):
//   quant  := ('forall'|'exists') id type {',' id type} '::' expr
//   iff    := imp {'<==>' imp}
//   imp    := or ['==>' imp]
//   or     := and {'||' and}
//   and    := cmp {'&&' cmp}
//   cmp    := add [relop add]
//   add    := mul {('+'|'-') mul}
//   mul    := unary {('*'|'/'|'%') unary}
//   unary  := ('!'|'-') unary | postfix
//   postfix:= primary {'.' id | '.(' type ')' | '[' expr ']' | '(' args ')'}

import (
	"fmt"
	"strings"
	"unicode"
)

type CExpr struct {
	Op   string   // "id","num","str","call","sel","index","assert","un","bin","forall","exists","type"
	Name string   // identifier, operator, field, number text, string value
	Args []*CExpr // operands
	// quantifier binders
	BindNames []string
	BindTypes []*CExpr
}

func (e *CExpr) String() string {
	switch e.Op {
	case "id", "num":
		return e.Name
	case "str":
		return fmt.Sprintf("%q", e.Name)
	case "type":
		return e.Name
	case "call":
		var a []string
		for _, x := range e.Args[1:] {
			a = append(a, x.String())
		}
		return e.Args[0].String() + "(" + strings.Join(a, ", ") + ")"
	case "sel":
		return e.Args[0].String() + "." + e.Name
	case "index":
		return e.Args[0].String() + "[" + e.Args[1].String() + "]"
	case "assert":
		return e.Args[0].String() + ".(" + e.Args[1].String() + ")"
	case "un":
		return e.Name + e.Args[0].String()
	case "bin":
		return "(" + e.Args[0].String() + " " + e.Name + " " + e.Args[1].String() + ")"
	case "forall", "exists":
		var b []string
		for i := range e.BindNames {
			b = append(b, e.BindNames[i]+" "+e.BindTypes[i].String())
		}
		return e.Op + " " + strings.Join(b, ", ") + " :: " + e.Args[0].String()
	}
	return "?"
}

type ctok struct {
	kind string // id num str op eof
	text string
}

func clex(s string) ([]ctok, error) {
	var toks []ctok
	i := 0
	rs := []rune(s)
	for i < len(rs) {
		c := rs[i]
		switch {
		case unicode.IsSpace(c):
			i++
		case unicode.IsLetter(c) || c == '_':
			j := i
			for j < len(rs) && (unicode.IsLetter(rs[j]) || unicode.IsDigit(rs[j]) || rs[j] == '_' || rs[j] == '$') {
				j++
			}
			toks = append(toks, ctok{"id", string(rs[i:j])})
			i = j
		case unicode.IsDigit(c):
			j := i
			for j < len(rs) && (unicode.IsDigit(rs[j]) || rs[j] == '_' || rs[j] == 'x' || (rs[j] >= 'a' && rs[j] <= 'f') || (rs[j] >= 'A' && rs[j] <= 'F')) {
				j++
			}
			toks = append(toks, ctok{"num", strings.ReplaceAll(string(rs[i:j]), "_", "")})
			i = j
		case c == '"':
			j := i + 1
			var sb strings.Builder
			for j < len(rs) && rs[j] != '"' {
				if rs[j] == '\\' && j+1 < len(rs) {
					j++
					switch rs[j] {
					case 'n':
						sb.WriteRune('\n')
					case 't':
						sb.WriteRune('\t')
					default:
						sb.WriteRune(rs[j])
					}
				} else {
					sb.WriteRune(rs[j])
				}
				j++
			}
			if j >= len(rs) {
				return nil, fmt.Errorf("unterminated string in %q", s)
			}
			toks = append(toks, ctok{"str", sb.String()})
			i = j + 1
		default:
			ops := []string{"<==>", "==>", "::", "==", "!=", "<=", ">=", "&&", "||", "[]", ".(", "<", ">", "+", "-", "*", "/", "%", "!", "(", ")", "[", "]", ".", ",", "?", ":"}
			matched := false
			for _, op := range ops {
				if strings.HasPrefix(string(rs[i:]), op) {
					toks = append(toks, ctok{"op", op})
					i += len([]rune(op))
					matched = true
					break
				}
			}
			if !matched {
				return nil, fmt.Errorf("bad character %q in %q", c, s)
			}
		}
	}
	toks = append(toks, ctok{"eof", ""})
	return toks, nil
}

type cparser struct {
	toks []ctok
	pos  int
	src  string
}

func ParseCExpr(s string) (e *CExpr, err error) {
	toks, err := clex(s)
	if err != nil {
		return nil, err
	}
	p := &cparser{toks: toks, src: s}
	defer func() {
		if r := recover(); r != nil {
			if pe, ok := r.(parseErr); ok {
				err = fmt.Errorf("%s in %q", string(pe), s)
				return
			}
			panic(r)
		}
	}()
	e = p.expr()
	if p.peek().kind != "eof" {
		p.fail("trailing input at %q", p.peek().text)
	}
	return e, nil
}

type parseErr string

func (p *cparser) fail(f string, a ...interface{}) { panic(parseErr(fmt.Sprintf(f, a...))) }
func (p *cparser) peek() ctok                      { return p.toks[p.pos] }
func (p *cparser) next() ctok                      { t := p.toks[p.pos]; p.pos++; return t }
func (p *cparser) isOp(s string) bool {
	t := p.peek()
	return t.kind == "op" && t.text == s
}
func (p *cparser) expect(s string) {
	if !p.isOp(s) {
		p.fail("expected %q, got %q", s, p.peek().text)
	}
	p.pos++
}

func (p *cparser) expr() *CExpr {
	t := p.peek()
	if t.kind == "id" && (t.text == "forall" || t.text == "exists") {
		p.next()
		q := &CExpr{Op: t.text}
		for {
			n := p.next()
			if n.kind != "id" {
				p.fail("binder name expected")
			}
			q.BindNames = append(q.BindNames, n.text)
			q.BindTypes = append(q.BindTypes, p.typ())
			if p.isOp(",") {
				p.next()
				continue
			}
			break
		}
		p.expect("::")
		q.Args = []*CExpr{p.expr()}
		return q
	}
	return p.iff()
}

func (p *cparser) iff() *CExpr {
	l := p.imp()
	for p.isOp("<==>") {
		p.next()
		r := p.imp()
		l = &CExpr{Op: "bin", Name: "<==>", Args: []*CExpr{l, r}}
	}
	return l
}

func (p *cparser) imp() *CExpr {
	l := p.or()
	if p.isOp("==>") {
		p.next()
		var r *CExpr
		t := p.peek()
		if t.kind == "id" && (t.text == "forall" || t.text == "exists") {
			r = p.expr()
		} else {
			r = p.imp()
		}
		return &CExpr{Op: "bin", Name: "==>", Args: []*CExpr{l, r}}
	}
	return l
}

func (p *cparser) or() *CExpr {
	l := p.and()
	for p.isOp("||") {
		p.next()
		r := p.and()
		l = &CExpr{Op: "bin", Name: "||", Args: []*CExpr{l, r}}
	}
	return l
}

func (p *cparser) and() *CExpr {
	l := p.cmp()
	for p.isOp("&&") {
		p.next()
		r := p.cmp()
		l = &CExpr{Op: "bin", Name: "&&", Args: []*CExpr{l, r}}
	}
	return l
}

func (p *cparser) cmp() *CExpr {
	l := p.add()
	for _, op := range []string{"==", "!=", "<=", ">=", "<", ">"} {
		if p.isOp(op) {
			p.next()
			r := p.add()
			return &CExpr{Op: "bin", Name: op, Args: []*CExpr{l, r}}
		}
	}
	return l
}

func (p *cparser) add() *CExpr {
	l := p.mul()
	for p.isOp("+") || p.isOp("-") {
		op := p.next().text
		r := p.mul()
		l = &CExpr{Op: "bin", Name: op, Args: []*CExpr{l, r}}
	}
	return l
}

func (p *cparser) mul() *CExpr {
	l := p.unary()
	for p.isOp("*") || p.isOp("/") || p.isOp("%") {
		op := p.next().text
		r := p.unary()
		l = &CExpr{Op: "bin", Name: op, Args: []*CExpr{l, r}}
	}
	return l
}

func (p *cparser) unary() *CExpr {
	if p.isOp("!") || p.isOp("-") {
		op := p.next().text
		return &CExpr{Op: "un", Name: op, Args: []*CExpr{p.unary()}}
	}
	return p.postfix()
}

// type := '*' type | '[]' type | id ['.' id]   (package-qualified names use '.'; paths with '/' are written a/b.T via ids joined by '/')
func (p *cparser) typ() *CExpr {
	if p.isOp("*") {
		p.next()
		t := p.typ()
		return &CExpr{Op: "type", Name: "*" + t.Name}
	}
	if p.isOp("[]") {
		p.next()
		t := p.typ()
		return &CExpr{Op: "type", Name: "[]" + t.Name}
	}
	t := p.next()
	if t.kind != "id" {
		p.fail("type expected, got %q", t.text)
	}
	name := t.text
	for p.isOp("/") || p.isOp(".") {
		sep := p.next().text
		n := p.next()
		if n.kind != "id" {
			p.fail("type name expected")
		}
		name += sep + n.text
	}
	return &CExpr{Op: "type", Name: name}
}

var typeArgBuiltins = map[string]int{"typeis": 1, "as": 1, "zero": 0}

func (p *cparser) postfix() *CExpr {
	e := p.primary()
	for {
		switch {
		case p.isOp(".("):
			p.next()
			t := p.typ()
			p.expect(")")
			e = &CExpr{Op: "assert", Args: []*CExpr{e, t}}
		case p.isOp("."):
			p.next()
			n := p.next()
			if n.kind != "id" {
				p.fail("field name expected")
			}
			e = &CExpr{Op: "sel", Name: n.text, Args: []*CExpr{e}}
		case p.isOp("["):
			p.next()
			i := p.expr()
			p.expect("]")
			e = &CExpr{Op: "index", Args: []*CExpr{e, i}}
		case p.isOp("("):
			p.next()
			c := &CExpr{Op: "call", Args: []*CExpr{e}}
			ti, hasT := -1, false
			if e.Op == "id" {
				ti, hasT = typeArgBuiltins[e.Name]
			}
			k := 0
			for !p.isOp(")") {
				if hasT && k == ti {
					c.Args = append(c.Args, p.typ())
				} else {
					c.Args = append(c.Args, p.expr())
				}
				k++
				if p.isOp(",") {
					p.next()
				} else {
					break
				}
			}
			p.expect(")")
			e = c
		default:
			return e
		}
	}
}

func (p *cparser) primary() *CExpr {
	t := p.next()
	switch t.kind {
	case "id":
		return &CExpr{Op: "id", Name: t.text}
	case "num":
		return &CExpr{Op: "num", Name: t.text}
	case "str":
		return &CExpr{Op: "str", Name: t.text}
	case "op":
		if t.text == "(" {
			e := p.expr()
			p.expect(")")
			return e
		}
	}
	p.fail("unexpected %q", t.text)
	return nil
}
