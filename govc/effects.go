package govc

import (
	"go/token"
	"fmt"
	"sort"
	"go/types"
	"strings"

	"golang.org/x/tools/go/ssa"
)

// Effects is a may-write summary in terms of state-variable names (heap arrays and ghost variables).
type sortFn func(*sorts) string

type Effects struct {
	Vars    map[string]sortFn
	OldVars map[string]sortFn // variables whose old()-snapshot is reset (monitor re-acquisition)
	All     bool
	Why     []string // where 'All' came from (diagnostics)
	// Locs: for arrays only written at known objects (SSA values), the objects; a variable that is in Vars but
	// has Whole[v] set is written at unknown places
	Locs  map[string][]ssa.Value
	Whole map[string]bool
}

func newEffects() *Effects {
	return &Effects{Vars: map[string]sortFn{}, OldVars: map[string]sortFn{}, Locs: map[string][]ssa.Value{}, Whole: map[string]bool{}}
}

func (e *Effects) add(o *Effects) {
	if o.All {
		e.All = true
		e.Why = append(e.Why, o.Why...)
	}
	for v, f := range o.Vars {
		e.Vars[v] = f
	}
	for v, f := range o.OldVars {
		e.OldVars[v] = f
	}
	for v, l := range o.Locs {
		e.Locs[v] = append(e.Locs[v], l...)
	}
	for v := range o.Vars {
		if _, precise := o.Locs[v]; !precise || o.Whole[v] {
			e.Whole[v] = true
		}
	}
}

func intSort(*sorts) string { return "Int" }

func arrOf(t types.Type) sortFn {
	return func(s *sorts) string { return "(Array Int " + s.sortOf(t) + ")" }
}
func arr2Of(t types.Type) sortFn {
	return func(s *sorts) string { return "(Array Int (Array Int " + s.sortOf(t) + "))" }
}
func scalarOf(t types.Type) sortFn { return func(s *sorts) string { return s.sortOf(t) } }

func addMapVars(s *sorts, mt *types.Map, out map[string]sortFn) {
	tag := sortTag(s, mt.Key()) + "." + sortTag(s, mt.Elem())
	out["MH."+tag] = func(s *sorts) string { return "(Array Int (Array " + s.sortOf(mt.Key()) + " Bool))" }
	out["MV."+tag] = func(s *sorts) string {
		return "(Array Int (Array " + s.sortOf(mt.Key()) + " " + s.sortOf(mt.Elem()) + "))"
	}
	out["ML."+tag] = func(*sorts) string { return "(Array Int Int)" }
}

func addEventVars(ev string, out map[string]sortFn) {
	out["G.cnt."+ev], out["G.first."+ev], out["G.last."+ev], out["G.now"] = intSort, intSort, intSort, intSort
}

// pure naming helpers (must agree with vcgen.fieldArr/ptrArr/elemArr/mapArrs)
func (eng *Engine) nameSorts() *sorts { return newSorts(eng) }

func fieldArrName(st types.Type, idx int) string {
	return "H." + typeName(st) + "." + st.Underlying().(*types.Struct).Field(idx).Name()
}

func sortTag(s *sorts, t types.Type) string { return strings.Trim(s.sortOf(t), "|") }

// all heap arrays that make up an object of type t stored at a pointer
func pointeeVars(s *sorts, t types.Type, out map[string]sortFn, depth int) {
	if depth > 4 {
		return
	}
	if st, ok := t.Underlying().(*types.Struct); ok {
		for i := 0; i < st.NumFields(); i++ {
			ft := st.Field(i).Type()
			if _, isS := ft.Underlying().(*types.Struct); isS && isDecomposedStruct(ft) {
				pointeeVars(s, ft, out, depth+1)
			} else {
				out[fieldArrName(t, i)] = arrOf(ft)
			}
		}
		if !isDecomposedStruct(t) {
			out["P."+sortTag(s, t)] = arrOf(t)
		}
		return
	}
	if _, ok := t.Underlying().(*types.Array); ok {
		return
	}
	out["P."+sortTag(s, t)] = arrOf(t)
}

func (eng *Engine) FuncEffects(f *ssa.Function) *Effects {
	if r, ok := eng.effects[f]; ok {
		return r
	}
	res := newEffects()
	visited := map[*ssa.Function]bool{}
	s := eng.nameSorts()
	var walk func(fn *ssa.Function)
	walk = func(fn *ssa.Function) {
		if visited[fn] {
			return
		}
		visited[fn] = true
		if fn != f {
			if c := eng.ContractOf(fn); c != nil && c.HasModifies {
				res.add(eng.modifiesEffects(c, fn, s))
				return
			}
			if r, ok := eng.effects[fn]; ok {
				res.add(r)
				return
			}
		}
		if fn.Blocks == nil || !eng.InModule(fn) {
			// library code is never walked: assumed contract, or the "direct pointees of module types" rule
			res.add(eng.externEffects(fn, s))
			return
		}
		for _, b := range fn.Blocks {
			for _, ins := range b.Instrs {
				eng.localEffects(ins, s, res, walk)
			}
		}
	}
	walk(f)
	eng.effects[f] = res
	return res
}

// extern function without contract: may modify the direct pointees of its pointer arguments
func (eng *Engine) externEffects(fn *ssa.Function, s *sorts) *Effects {
	res := newEffects()
	if c := eng.ContractOf(fn); c != nil {
		if c.HasModifies {
			return eng.modifiesEffects(c, fn, s)
		}
		return res
	}
	sig := fn.Signature
	add := func(t types.Type) {
		if p, ok := t.Underlying().(*types.Pointer); ok {
			// internals of library objects are invisible to the module: only module types and plain cells count
			if n, isNamed := p.Elem().(*types.Named); isNamed {
				if n.Obj().Pkg() == nil || !strings.HasPrefix(n.Obj().Pkg().Path(), ModPath) {
					return
				}
			}
			pointeeVars(s, p.Elem(), res.Vars, 0)
		}
	}
	if sig.Recv() != nil {
		add(sig.Recv().Type())
	}
	for i := 0; i < sig.Params().Len(); i++ {
		add(sig.Params().At(i).Type())
	}
	return res
}

func (eng *Engine) modifiesEffects(c *FuncContract, fn *ssa.Function, s *sorts) *Effects {
	res := newEffects()
	if fn == nil {
		eng.pkgHint = c.Pkg
		defer func() { eng.pkgHint = "" }()
	}
	for _, m := range c.Modifies {
		names, err := eng.modifiesVars(m, fn, s)
		if err != nil {
			res.All = true
			res.Why = append(res.Why, "modifies target: "+err.Error())
			continue
		}
		for n, f := range names {
			res.Vars[n] = f
		}
	}
	for _, ev := range c.Emits {
		addEventVars(ev, res.Vars)
	}
	return res
}

// modifiesVars resolves a modifies target (x.f, all(T.f), mapof(x), events(..), ghost(..), global) to the state variables it may touch.
func (eng *Engine) modifiesVars(m *CExpr, fn *ssa.Function, s *sorts) (map[string]sortFn, error) {
	out := map[string]sortFn{}
	if m.Op == "call" && m.Args[0].Op == "id" {
		switch m.Args[0].Name {
		case "events":
			for _, a := range m.Args[1:] {
				addEventVars(a.Name, out)
			}
			return out, nil
		case "ghost":
			for _, a := range m.Args[1:] {
				out["G.u."+a.Name] = intSort
			}
			return out, nil
		case "gm":
			out["G.m."+m.Args[1].Name] = func(*sorts) string { return "(Array Int Int)" }
			return out, nil
		case "mapof":
			t, err := eng.staticTypeOf(m.Args[1], fn)
			if err != nil {
				return nil, err
			}
			mt, ok := t.Underlying().(*types.Map)
			if !ok {
				return nil, fmt.Errorf("mapof: not a map")
			}
			addMapVars(s, mt, out)
			return out, nil
		case "all":
			return eng.modifiesVars(m.Args[1], fn, s)
		}
	}
	if m.Op == "id" && fn != nil && fn.Pkg != nil {
		if gl := fn.Pkg.Var(m.Name); gl != nil {
			out["GV."+gl.Pkg.Pkg.Path()+"."+gl.Name()] = scalarOf(gl.Type().Underlying().(*types.Pointer).Elem())
			return out, nil
		}
	}
	if m.Op != "sel" {
		return nil, fmt.Errorf("unsupported modifies target %s", m)
	}
	bt, err := eng.staticTypeOf(m.Args[0], fn)
	if err != nil {
		return nil, err
	}
	if p, ok := bt.Underlying().(*types.Pointer); ok {
		bt = p.Elem()
	}
	st, ok := bt.Underlying().(*types.Struct)
	if !ok {
		return nil, fmt.Errorf("modifies target %s: base is not a struct", m)
	}
	for i := 0; i < st.NumFields(); i++ {
		if st.Field(i).Name() == m.Name {
			ft := st.Field(i).Type()
			if _, isS := ft.Underlying().(*types.Struct); isS && isDecomposedStruct(ft) {
				pointeeVars(s, ft, out, 0)
				return out, nil
			}
			out[fieldArrName(bt, i)] = arrOf(ft)
			return out, nil
		}
	}
	return nil, fmt.Errorf("modifies target %s: no field %s", m, m.Name)
}

// staticTypeOf computes the Go type of a contract path expression (identifiers are parameters,
// named types of the function's package, or package-level variables).
func (eng *Engine) staticTypeOf(e *CExpr, fn *ssa.Function) (types.Type, error) {
	switch e.Op {
	case "id":
		if fn == nil {
			if sig := eng.sigHint; sig != nil && len(e.Name) >= 2 && e.Name[0] == 'a' {
				k := 0
				if _, err := fmt.Sscanf(e.Name[1:], "%d", &k); err == nil && k < sig.Params().Len() {
					return sig.Params().At(k).Type(), nil
				}
			}
			if eng.pkgHint != "" && !strings.Contains(e.Name, ".") {
				if p, ok := eng.AllPkgs[eng.pkgHint]; ok && p.Types != nil {
					if tn, ok := p.Types.Scope().Lookup(e.Name).(*types.TypeName); ok {
						return tn.Type(), nil
					}
				}
			}
			if t, err := eng.resolveType(e.Name, nil); err == nil {
				return t, nil
			}
			return nil, fmt.Errorf("unknown identifier %s", e.Name)
		}
		for _, p := range fn.Params {
			if p.Name() == e.Name {
				return p.Type(), nil
			}
		}
		for _, fv := range fn.FreeVars {
			if fv.Name() == e.Name {
				t := fv.Type()
				if p, ok := t.(*types.Pointer); ok {
					return p.Elem(), nil
				}
				return t, nil
			}
		}
		if res := fn.Signature.Results(); res != nil {
			for i := 0; i < res.Len(); i++ {
				if res.At(i).Name() == e.Name || fmt.Sprintf("r%d", i) == e.Name || (i == 0 && e.Name == "result") {
					return res.At(i).Type(), nil
				}
			}
		}
		var pkg *types.Package
		if fn.Pkg != nil {
			pkg = fn.Pkg.Pkg
		} else if fn.Signature.Recv() != nil {
			if n := namedOf(fn.Signature.Recv().Type()); n != nil {
				pkg = n.Obj().Pkg()
			}
		}
		if pkg != nil {
			if obj := pkg.Scope().Lookup(e.Name); obj != nil {
				return obj.Type(), nil
			}
		}
		if t, err := eng.resolveType(e.Name, fn); err == nil {
			return t, nil
		}
		return nil, fmt.Errorf("unknown identifier %s", e.Name)
	case "sel":
		if e.Args[0].Op == "id" {
			// package-qualified type name (interop.Reset)
			if t, err := eng.resolveType(e.Args[0].Name+"."+e.Name, fn); err == nil {
				isLocal := false
				if fn != nil {
					for _, p := range fn.Params {
						if p.Name() == e.Args[0].Name {
							isLocal = true
						}
					}
				}
				if !isLocal {
					return t, nil
				}
			}
		}
		bt, err := eng.staticTypeOf(e.Args[0], fn)
		if err != nil {
			return nil, err
		}
		if p, ok := bt.Underlying().(*types.Pointer); ok {
			bt = p.Elem()
		}
		st, ok := bt.Underlying().(*types.Struct)
		if !ok {
			return nil, fmt.Errorf("%s: not a struct", e.Args[0])
		}
		for i := 0; i < st.NumFields(); i++ {
			if st.Field(i).Name() == e.Name {
				return st.Field(i).Type(), nil
			}
		}
		return nil, fmt.Errorf("no field %s", e.Name)
	case "assert":
		return eng.resolveType(e.Args[1].Name, fn)
	}
	return nil, fmt.Errorf("unsupported path %s", e)
}

// resolveType resolves a type written in a contract: *T, pkg.T, path/pkg.T, builtin names.
func (eng *Engine) resolveType(name string, fn *ssa.Function) (types.Type, error) {
	if strings.HasPrefix(name, "*") {
		t, err := eng.resolveType(name[1:], fn)
		if err != nil {
			return nil, err
		}
		return types.NewPointer(t), nil
	}
	if strings.HasPrefix(name, "[]") {
		t, err := eng.resolveType(name[2:], fn)
		if err != nil {
			return nil, err
		}
		return types.NewSlice(t), nil
	}
	if obj := types.Universe.Lookup(name); obj != nil {
		if tn, ok := obj.(*types.TypeName); ok {
			return tn.Type(), nil
		}
	}
	var pkg *types.Package
	if fn != nil && fn.Pkg != nil {
		pkg = fn.Pkg.Pkg
	}
	tn := name
	if i := strings.LastIndex(name, "."); i >= 0 {
		pp, n := name[:i], name[i+1:]
		tn = n
		pkg = nil
		// full path or package name / import alias
		if p, ok := eng.AllPkgs[pp]; ok {
			pkg = p.Types
		} else {
			for path, p := range eng.AllPkgs {
				if p.Types != nil && (p.Types.Name() == pp || strings.HasSuffix(path, "/"+pp)) {
					if p.Types.Scope().Lookup(n) != nil {
						pkg = p.Types
						break
					}
				}
			}
		}
	}
	if pkg == nil {
		return nil, fmt.Errorf("cannot resolve type %s", name)
	}
	obj := pkg.Scope().Lookup(tn)
	if obj == nil {
		return nil, fmt.Errorf("cannot resolve type %s", name)
	}
	if t, ok := obj.(*types.TypeName); ok {
		return t.Type(), nil
	}
	return nil, fmt.Errorf("%s is not a type", name)
}

func (eng *Engine) localEffects(ins ssa.Instruction, s *sorts, res *Effects, walk func(*ssa.Function)) {
	switch x := ins.(type) {
	case *ssa.Store:
		eng.storeEffects(x.Addr, s, res)
	case *ssa.MapUpdate:
		if _, own := x.Map.(*ssa.MakeMap); own {
			return // a map created by this very call: its locations did not exist before
		}
		if mt, ok := x.Map.Type().Underlying().(*types.Map); ok {
			addMapVars(s, mt, res.Vars)
		}
	case *ssa.Send:
		for _, ev := range eng.chanEventsFor("send", x.Chan) {
			addEventVars(ev.Name, res.Vars)
		}
	case *ssa.Select:
		for _, st := range x.States {
			kind := "recv"
			if st.Dir == types.SendOnly {
				kind = "send"
			}
			for _, ev := range eng.chanEventsFor(kind, st.Chan) {
				addEventVars(ev.Name, res.Vars)
			}
		}
	case *ssa.UnOp:
		if x.Op == token.ARROW {
			for _, ev := range eng.chanEventsFor("recv", x.X) {
				addEventVars(ev.Name, res.Vars)
			}
		}
	case ssa.CallInstruction:
		if _, isGo := ins.(*ssa.Go); isGo {
			// the spawn itself is an event of the spawner; the goroutine's own events are not (they are concurrent),
			// but what it may write is part of the spawner's may-write summary: it may happen before the spawner returns
			for _, ev := range eng.spawnEventsFor(x.Common()) {
				addEventVars(ev.Name, res.Vars)
			}
			sub := newEffects()
			eng.callEffects(x.Common(), s, sub, func(fn *ssa.Function) { sub.add(eng.FuncEffects(fn)) })
			if sub.All {
				res.All = true
				res.Why = append(res.Why, sub.Why...)
			}
			for n, f := range sub.Vars {
				if strings.HasPrefix(n, "G.") {
					continue
				}
				res.Vars[n] = f
			}
			return
		}
		for _, ev := range eng.eventsFor(x.Common()) {
			addEventVars(ev.Name, res.Vars)
		}
		eng.callEffects(x.Common(), s, res, walk)
	}
}

// rootsInAlloc: the address lies inside an object allocated by the same function (invisible to callers:
// the locations did not exist before the call)
func rootsInAlloc(addr ssa.Value) bool {
	for {
		switch a := addr.(type) {
		case *ssa.FieldAddr:
			addr = a.X
		case *ssa.IndexAddr:
			if _, isPtr := a.X.Type().Underlying().(*types.Pointer); !isPtr {
				return false
			}
			addr = a.X // element of a local array (e.g. the argument pack of a variadic call)
		case *ssa.Alloc:
			return true
		default:
			return false
		}
	}
}

func (eng *Engine) storeEffects(addr ssa.Value, s *sorts, res *Effects) {
	if _, isAlloc := addr.(*ssa.Alloc); !isAlloc && rootsInAlloc(addr) {
		return
	}
	switch a := addr.(type) {
	case *ssa.FieldAddr:
		st := a.X.Type().Underlying().(*types.Pointer).Elem()
		ft := st.Underlying().(*types.Struct).Field(a.Field).Type()
		if _, isS := ft.Underlying().(*types.Struct); isS && isDecomposedStruct(ft) {
			pointeeVars(s, ft, res.Vars, 0)
		} else {
			res.Vars[fieldArrName(st, a.Field)] = arrOf(ft)
		}
	case *ssa.IndexAddr:
		switch xt := a.X.Type().Underlying().(type) {
		case *types.Slice:
			if ownSlice(a.X, map[ssa.Value]bool{}) {
				return // elements of a slice this function made itself: the locations did not exist before the call
			}
			res.Vars["E."+sortTag(s, xt.Elem())] = arr2Of(xt.Elem())
		case *types.Pointer:
			if at, ok := xt.Elem().Underlying().(*types.Array); ok {
				res.Vars["E."+sortTag(s, at.Elem())] = arr2Of(at.Elem())
			}
		}
	case *ssa.Global:
		res.Vars["GV."+a.Pkg.Pkg.Path()+"."+a.Name()] = scalarOf(a.Type().Underlying().(*types.Pointer).Elem())
	case *ssa.Alloc:
		if !a.Heap {
			return // purely local cell
		}
		pointeeVars(s, a.Type().Underlying().(*types.Pointer).Elem(), res.Vars, 0)
	default:
		if p, ok := addr.Type().Underlying().(*types.Pointer); ok {
			pointeeVars(s, p.Elem(), res.Vars, 0)
		}
	}
}

func (eng *Engine) callEffects(c *ssa.CallCommon, s *sorts, res *Effects, walk func(*ssa.Function)) {
	if c.IsInvoke() {
		iface := c.Value.Type().Underlying().(*types.Interface)
		if fc := eng.ifaceContract(c); fc != nil {
			if fc.HasModifies {
				res.add(eng.modifiesEffects(fc, nil, s))
			}
			// module types that implement the external interface: their methods' effects count as well
			for _, t := range eng.Implementers(iface, typeName(c.Value.Type())) {
				if closedWorld(c.Value.Type()) {
					break // a module interface with its own contract: the contract is the whole story
				}
				if fn := eng.MethodOf(t, c.Method.Name(), c.Method.Pkg()); fn != nil && fn.Blocks != nil && eng.InModule(fn) {
					walk(fn)
				}
			}
			return
		}
		if n, ok := c.Value.Type().(*types.Named); ok && n.Obj().Pkg() != nil && n.Obj().Pkg().Path() == "sync" && n.Obj().Name() == "Locker" {
			return // lock operations write no modelled state (monitor reasoning is separate)
		}
		if !closedWorld(c.Value.Type()) {
			res.All = true // unknown implementation of an external interface
			res.Why = append(res.Why, "open interface "+c.String())
			return
		}
		impls := eng.Implementers(iface, typeName(c.Value.Type()))
		for _, t := range impls {
			if fn := eng.MethodOf(t, c.Method.Name(), c.Method.Pkg()); fn != nil {
				walk(fn)
				eng.argClosures(fn, c, walk, func() { res.All = true })
			}
		}
		return
	}
	if b, ok := c.Value.(*ssa.Builtin); ok {
		switch b.Name() {
		case "append", "copy":
			if ownSlice(c.Args[0], map[ssa.Value]bool{}) {
				return // writes go to memory allocated by this function (or by append itself)
			}
			if st, ok := c.Args[0].Type().Underlying().(*types.Slice); ok {
				res.Vars["E."+sortTag(s, st.Elem())] = arr2Of(st.Elem())
			}
		case "delete":
			if mt, ok := c.Args[0].Type().Underlying().(*types.Map); ok {
				addMapVars(s, mt, res.Vars)
			}
		case "close":
			for _, ev := range eng.chanEventsFor("close", c.Args[0]) {
				addEventVars(ev.Name, res.Vars)
			}
		}
		return
	}
	if fn := c.StaticCallee(); fn != nil {
		if isNoEffectExtern(fn) && eng.ContractOf(fn) == nil {
			return
		}
		walk(fn)
		eng.argClosures(fn, c, walk, func() { res.All = true })
		return
	}
	if mc, ok := c.Value.(*ssa.MakeClosure); ok {
		if fn, ok := mc.Fn.(*ssa.Function); ok {
			walk(fn)
			eng.argClosures(fn, c, walk, func() { res.All = true })
			return
		}
	}
	if p, ok := c.Value.(*ssa.Parameter); ok && eng.isCallOnlyParam(p) {
		return // attributed to every call site of the enclosing function (argClosures)
	}
	// dynamic call through a struct field with an assumed function-value contract
	if fc := eng.funcFieldContract(c.Value); fc != nil {
		if fc.HasModifies {
			eng.sigHint = c.Signature()
			res.add(eng.modifiesEffects(fc, nil, s))
			eng.sigHint = nil
			return
		}
	}
	if eng.libraryFuncField(c.Value) != "" {
		return
	}
	if eng.libraryFuncValue(c.Value, 0) {
		return
	}
	if targets, _ := eng.fieldFuncTargets(c.Value); len(targets) > 0 {
		for _, t := range targets {
			walk(t)
		}
		return
	}
	if eng.extFuncCall(c) {
		return
	}
	// dynamic call through a function value of unknown origin
	res.All = true
	res.Why = append(res.Why, "dynamic call "+c.String())
}

// funcFieldContract: the assumed contract for function values stored in the struct field that v is loaded from
func (eng *Engine) funcFieldContract(v ssa.Value) *FuncContract {
	// a value of a named function type with an assumed contract
	if n, ok := v.Type().(*types.Named); ok && n.Obj().Pkg() != nil {
		if _, isSig := n.Underlying().(*types.Signature); isSig {
			if fc, ok := eng.DB.Funcs[n.Obj().Pkg().Path()+".functype:"+n.Obj().Name()]; ok {
				return fc
			}
		}
	}
	ld, ok := v.(*ssa.UnOp)
	if !ok {
		return nil
	}
	fa, ok := ld.X.(*ssa.FieldAddr)
	if !ok {
		return nil
	}
	st := fa.X.Type().Underlying().(*types.Pointer).Elem()
	n, ok := st.(*types.Named)
	if !ok || n.Obj().Pkg() == nil {
		return nil
	}
	key := n.Obj().Pkg().Path() + ".field:" + n.Obj().Name() + "." + st.Underlying().(*types.Struct).Field(fa.Field).Name()
	return eng.DB.Funcs[key]
}

// ifaceMethodKey: contract key of an interface method, e.g. net/http.(ResponseWriter).Write
func ifaceMethodKey(t types.Type, method string) string {
	tn := typeName(t)
	if i := strings.LastIndex(tn, "."); i >= 0 {
		return tn[:i] + ".(" + tn[i+1:] + ")." + method
	}
	return "builtin.(" + tn + ")." + method
}

func (eng *Engine) ifaceContract(c *ssa.CallCommon) *FuncContract {
	if fc, ok := eng.DB.Funcs[ifaceMethodKey(c.Value.Type(), c.Method.Name())]; ok {
		return fc
	}
	return nil
}

// closedWorld: dispatch by enumeration of implementers is only used for interfaces declared in the module
func closedWorld(t types.Type) bool {
	n, ok := t.(*types.Named)
	return ok && n.Obj().Pkg() != nil && strings.HasPrefix(n.Obj().Pkg().Path(), ModPath)
}

// logging and similar library calls that have no effect on program state
func isNoEffectExtern(fn *ssa.Function) bool {
	p := pkgPathOf(fn)
	switch p {
	case "github.com/sirupsen/logrus", "log", "fmt", "errors", "strings", "strconv", "time", "math", "unicode", "unicode/utf8", "path", "path/filepath", "regexp", "sort", "bytes", "encoding/base64", "encoding/hex", "github.com/google/uuid", "os", "syscall", "context", "sync/atomic", "sync":
		return true
	}
	return false
}

func pkgPathOf(fn *ssa.Function) string {
	if fn.Pkg != nil {
		return fn.Pkg.Pkg.Path()
	}
	if recv := fn.Signature.Recv(); recv != nil {
		if n := namedOf(recv.Type()); n != nil && n.Obj().Pkg() != nil {
			return n.Obj().Pkg().Path()
		}
	}
	if fn.Object() != nil && fn.Object().Pkg() != nil {
		return fn.Object().Pkg().Path()
	}
	return ""
}

// instrEffects: effects of a single instruction inside the function being verified (used for loop havoc).
func (eng *Engine) instrEffects(ins ssa.Instruction, g *vcgen) *Effects {
	res := newEffects()
	s := g.s
	walk := func(fn *ssa.Function) {
		if c := eng.ContractOf(fn); c != nil && c.HasModifies {
			res.add(eng.modifiesEffects(c, fn, s)) // the call is translated with the callee's declared frame
			evs, all := eng.EventEffects(fn)
			if all {
				for n := range g.varSort {
					if strings.HasPrefix(n, "G.cnt.") {
						evs[strings.TrimPrefix(n, "G.cnt.")] = true
					}
				}
			}
			for ev := range evs {
				addEventVars(ev, res.Vars)
			}
			return
		}
		res.add(eng.FuncEffects(fn))
	}
	switch x := ins.(type) {
	case *ssa.MapUpdate:
		if mt, ok := x.Map.Type().Underlying().(*types.Map); ok {
			m := map[string]sortFn{}
			addMapVars(s, mt, m)
			for n, f := range m {
				res.Vars[n] = f
				res.Locs[n] = append(res.Locs[n], x.Map)
			}
		}
	case *ssa.Store:
		if al, ok := x.Addr.(*ssa.Alloc); ok {
			pointeeVars(s, al.Type().Underlying().(*types.Pointer).Elem(), res.Vars, 0)
		} else if fa, ok := x.Addr.(*ssa.FieldAddr); ok {
			st := fa.X.Type().Underlying().(*types.Pointer).Elem()
			ft := st.Underlying().(*types.Struct).Field(fa.Field).Type()
			if _, isS := ft.Underlying().(*types.Struct); isS && isDecomposedStruct(ft) {
				eng.storeEffects(x.Addr, s, res)
			} else {
				n := fieldArrName(st, fa.Field)
				res.Vars[n] = arrOf(ft)
				res.Locs[n] = append(res.Locs[n], fa.X)
			}
		} else {
			eng.storeEffects(x.Addr, s, res)
		}
	case *ssa.Alloc, *ssa.MakeMap, *ssa.MakeSlice, *ssa.MakeChan, *ssa.MakeClosure, *ssa.MakeInterface:
		res.Vars["G.alloc"] = intSort
		if al, ok := ins.(*ssa.Alloc); ok {
			pointeeVars(s, al.Type().Underlying().(*types.Pointer).Elem(), res.Vars, 0)
		}
		if mm, ok := ins.(*ssa.MakeMap); ok {
			addMapVars(s, mm.Type().Underlying().(*types.Map), res.Vars)
		}
		if ms, ok := ins.(*ssa.MakeSlice); ok {
			et := ms.Type().Underlying().(*types.Slice).Elem()
			res.Vars["E."+sortTag(s, et)] = arr2Of(et)
		}
	case *ssa.Convert:
		if g.s.sortOf(x.X.Type()) == "String" && g.s.sortOf(x.Type()) == "Slice" {
			res.Vars["G.alloc"] = intSort
			res.Vars["E.Int"] = arr2Of(types.Typ[types.Byte])
		}
	case *ssa.Range:
		if mt, ok := x.X.Type().Underlying().(*types.Map); ok {
			res.Vars["G.visited."+x.Name()] = func(s *sorts) string { return "(Array " + s.sortOf(mt.Key()) + " Bool)" }
		}
		res.Vars["G.alloc"] = intSort
	case *ssa.Next:
		if rng, ok := x.Iter.(*ssa.Range); ok && !x.IsString {
			if mt, ok := rng.X.Type().Underlying().(*types.Map); ok {
				res.Vars["G.visited."+rng.Name()] = func(s *sorts) string { return "(Array " + s.sortOf(mt.Key()) + " Bool)" }
			}
		}
	default:
		if ci, ok := ins.(ssa.CallInstruction); ok {
			res.Vars["G.alloc"] = intSort
			if mon := g.monitorOfCall(ci.Common()); mon != nil {
				boolArr := func(*sorts) string { return "(Array Int Bool)" }
				for _, arr := range g.protectedArrs(mon) {
					srt := g.varSort[arr]
					res.Vars[arr] = func(*sorts) string { return srt }
					res.OldVars[arr] = func(*sorts) string { return srt }
				}
				res.Vars[g.heldVar(mon)] = boolArr
				res.Vars[g.bcastVar(mon)] = boolArr
				res.Vars[g.woldVar(mon)] = boolArr
				return res
			}
		}
		eng.localEffects(ins, s, res, walk)
	}
	return res
}

func (eng *Engine) EffectsString(fn *ssa.Function) string {
	e := eng.FuncEffects(fn)
	var ns []string
	for n := range e.Vars {
		ns = append(ns, n)
	}
	sort.Strings(ns)
	if e.All {
		return fmt.Sprintf("all=%v why=%v %v", e.All, e.Why, ns)
	}
	return fmt.Sprintf("all=%v %v", e.All, ns)
}

// extFuncCall: the enclosing function's contract declares the called variable to hold a library function
func (eng *Engine) extFuncCall(c *ssa.CallCommon) bool {
	if p, ok := c.Value.(*ssa.Parameter); ok {
		// a parameter declared pure: an uninterpreted function application, no effect
		if fc := eng.ContractOf(p.Parent()); fc != nil && flagHas(fc.Flags["pureparam"], p.Name()) {
			return true
		}
	}
	ins, ok := c.Value.(ssa.Instruction)
	var fn *ssa.Function
	if ok {
		fn = ins.Parent()
	} else if p, ok := c.Value.(*ssa.Parameter); ok {
		fn = p.Parent()
	} else if fv, ok := c.Value.(*ssa.FreeVar); ok {
		fn = fv.Parent()
	}
	if fn == nil {
		return false
	}
	fc := eng.ContractOf(fn)
	if fc == nil || fc.Flags["extfunc"] == "" {
		return false
	}
	g := &vcgen{fn: fn}
	name := g.sourceNameOf(c.Value)
	return name != "" && flagHas(fc.Flags["extfunc"], name)
}

// EventEffects: the ghost events the body of fn (and everything it calls inside the module) may emit.
// Always computed from the code, never from contracts. all=true: a dynamic call may emit anything.
func (eng *Engine) EventEffects(f *ssa.Function) (map[string]bool, bool) {
	if r, ok := eng.eventEff[f]; ok {
		out := map[string]bool{}
		for k := range r.evs {
			out[k] = true
		}
		return out, r.all
	}
	res := &eventSet{evs: map[string]bool{}}
	visited := map[*ssa.Function]bool{}
	var walk func(fn *ssa.Function)
	walk = func(fn *ssa.Function) {
		if visited[fn] || fn.Blocks == nil || !eng.InModule(fn) {
			return
		}
		visited[fn] = true
		if fc := eng.ContractOf(fn); fc != nil {
			if _, trusted := fc.Flags["trusted"]; trusted {
				return // a trusted contract: the body is not looked at, by declaration
			}
		}
		for _, b := range fn.Blocks {
			for _, ins := range b.Instrs {
				switch x := ins.(type) {
				case *ssa.Send:
					for _, ev := range eng.chanEventsFor("send", x.Chan) {
						res.evs[ev.Name] = true
					}
				case *ssa.Select:
					for _, st := range x.States {
						kind := "recv"
						if st.Dir == types.SendOnly {
							kind = "send"
						}
						for _, ev := range eng.chanEventsFor(kind, st.Chan) {
							res.evs[ev.Name] = true
						}
					}
				case *ssa.UnOp:
					if x.Op == token.ARROW {
						for _, ev := range eng.chanEventsFor("recv", x.X) {
							res.evs[ev.Name] = true
						}
					}
				}
				ci, ok := ins.(ssa.CallInstruction)
				if !ok {
					continue
				}
				if _, isGo := ins.(*ssa.Go); isGo {
					for _, ev := range eng.spawnEventsFor(ci.Common()) {
						res.evs[ev.Name] = true
					}
					continue
				}
				c := ci.Common()
				for _, ev := range eng.eventsFor(c) {
					res.evs[ev.Name] = true
				}
				if bi, ok := c.Value.(*ssa.Builtin); ok && bi.Name() == "close" && len(c.Args) == 1 {
					for _, ev := range eng.chanEventsFor("close", c.Args[0]) {
						res.evs[ev.Name] = true
					}
				}
				switch {
				case c.IsInvoke():
					if eng.ifaceContract(c) != nil {
						continue
					}
					// interfaces declared outside the module: library implementations cannot emit module events;
					// module types implementing the interface are walked like any other callee
					for _, t := range eng.Implementers(c.Value.Type().Underlying().(*types.Interface), typeName(c.Value.Type())) {
						if m := eng.MethodOf(t, c.Method.Name(), c.Method.Pkg()); m != nil {
							walk(m)
							eng.argClosures(m, c, walk, func() {
								res.all = true
								res.why = append(res.why, fn.String()+": function value of unknown origin passed to "+m.String())
							})
						}
					}
				case c.StaticCallee() != nil:
					walk(c.StaticCallee())
					eng.argClosures(c.StaticCallee(), c, walk, func() {
						res.all = true
						res.why = append(res.why, fn.String()+": function value of unknown origin passed to "+c.StaticCallee().String())
					})
				default:
					if _, isB := c.Value.(*ssa.Builtin); isB {
						continue
					}
					if mc, ok := c.Value.(*ssa.MakeClosure); ok {
						if cf, ok := mc.Fn.(*ssa.Function); ok {
							walk(cf)
							continue
						}
					}
					if p, ok := c.Value.(*ssa.Parameter); ok && eng.isCallOnlyParam(p) {
						continue // attributed to every call site of the enclosing function (argClosures)
					}
					if eng.funcFieldContract(c.Value) != nil || eng.libraryFuncField(c.Value) != "" || eng.extFuncCall(c) || eng.libraryFuncValue(c.Value, 0) {
						continue
					}
					if targets, _ := eng.fieldFuncTargets(c.Value); len(targets) > 0 {
						for _, t := range targets {
							walk(t)
						}
						continue
					}
					res.all = true
					res.why = append(res.why, fn.String()+": dynamic call "+c.String())
				}
			}
		}
	}
	walk(f)
	if eng.eventEff == nil {
		eng.eventEff = map[*ssa.Function]*eventSet{}
	}
	eng.eventEff[f] = res
	out := map[string]bool{}
	for k := range res.evs {
		out[k] = true
	}
	return out, res.all
}

type eventSet struct {
	evs map[string]bool
	all bool
	why []string
}

func (eng *Engine) EventEffectsString(fn *ssa.Function) string {
	evs, all := eng.EventEffects(fn)
	var ns []string
	for n := range evs {
		ns = append(ns, n)
	}
	sort.Strings(ns)
	return fmt.Sprintf("all=%v %v why=%v", all, ns, eng.eventEff[fn].why)
}

// ---- function-valued parameters that are only ever called ----
// A function parameter whose only uses are calls contributes nothing to the summary of the function that
// declares it; instead every call site adds the effects of the function value it passes (a closure or a
// named function), or "anything" when the value's origin is not syntactically known.

func (eng *Engine) isCallOnlyParam(p *ssa.Parameter) bool {
	return eng.callOnly(p, map[*ssa.Parameter]bool{})
}

func (eng *Engine) callOnly(p *ssa.Parameter, seen map[*ssa.Parameter]bool) bool {
	if seen[p] {
		return true
	}
	seen[p] = true
	if _, ok := p.Type().Underlying().(*types.Signature); !ok {
		return false
	}
	if p.Referrers() == nil {
		return false
	}
	for _, r := range *p.Referrers() {
		switch u := r.(type) {
		case *ssa.DebugRef:
		case ssa.CallInstruction:
			if _, isGo := r.(*ssa.Go); isGo {
				return false
			}
			if _, isDefer := r.(*ssa.Defer); isDefer {
				return false
			}
			c := u.Common()
			if c.Value == p {
				for _, a := range c.Args {
					if a == p {
						return false
					}
				}
				continue
			}
			// handed on to a module function that itself only calls it
			callee := c.StaticCallee()
			if callee == nil || callee.Blocks == nil || !eng.InModule(callee) {
				return false
			}
			for i, a := range c.Args {
				if a == p {
					if i >= len(callee.Params) || !eng.callOnly(callee.Params[i], seen) {
						return false
					}
				}
			}
		default:
			return false
		}
	}
	return true
}

// argClosures visits the functions passed for the call-only function parameters of callee fn at call site c.
func (eng *Engine) argClosures(fn *ssa.Function, c *ssa.CallCommon, visit func(*ssa.Function), unknown func()) {
	if fn == nil || c == nil || fn.Blocks == nil || !eng.InModule(fn) {
		return
	}
	for i, p := range fn.Params {
		if !eng.isCallOnlyParam(p) {
			continue
		}
		j := i
		if c.IsInvoke() {
			j = i - 1
		}
		if j < 0 || j >= len(c.Args) {
			unknown()
			continue
		}
		switch a := eng.seeThroughReturnsParam(c.Args[j]).(type) {
		case *ssa.MakeClosure:
			if f, ok := a.Fn.(*ssa.Function); ok {
				visit(f)
				continue
			}
			unknown()
		case *ssa.Function:
			visit(a)
		case *ssa.Parameter:
			if eng.isCallOnlyParam(a) {
				continue // forwarded: attributed to the callers of the enclosing function in turn
			}
			unknown()
		default:
			unknown()
		}
	}
}

// seeThroughReturnsParam: a call of functions whose contract says "returnsparam p" (proved in their own units)
// stands for the argument passed for p
func (eng *Engine) seeThroughReturnsParam(v ssa.Value) ssa.Value {
	for depth := 0; depth < 8; depth++ {
		call, ok := v.(*ssa.Call)
		if !ok {
			return v
		}
		c := call.Common()
		var targets []*ssa.Function
		if c.IsInvoke() {
			if !closedWorld(c.Value.Type()) {
				return v
			}
			for _, t := range eng.Implementers(c.Value.Type().Underlying().(*types.Interface), typeName(c.Value.Type())) {
				if m := eng.MethodOf(t, c.Method.Name(), c.Method.Pkg()); m != nil {
					targets = append(targets, m)
				}
			}
		} else if fn := c.StaticCallee(); fn != nil {
			targets = []*ssa.Function{fn}
		}
		if len(targets) == 0 {
			return v
		}
		var arg ssa.Value
		for _, t := range targets {
			fc := eng.ContractOf(t)
			if fc == nil || strings.TrimSpace(fc.Flags["returnsparam"]) == "" {
				return v
			}
			idx := -1
			for i, p := range t.Params {
				if p.Name() == strings.TrimSpace(fc.Flags["returnsparam"]) {
					idx = i
				}
			}
			if c.IsInvoke() {
				idx--
			}
			if idx < 0 || idx >= len(c.Args) || (arg != nil && arg != c.Args[idx]) {
				return v
			}
			arg = c.Args[idx]
		}
		v = arg
	}
	return v
}

// ownSlice: the slice value can only refer to backing arrays allocated by the function that computes it
// (make, nil, append onto such a slice, re-slicing, phi of such values, a never-escaping local variable
// that only ever holds such values). Writes through it are invisible to every caller.
func ownSlice(v ssa.Value, seen map[ssa.Value]bool) bool {
	if seen[v] {
		return true
	}
	seen[v] = true
	switch x := v.(type) {
	case *ssa.MakeSlice:
		return true
	case *ssa.Const:
		return x.IsNil()
	case *ssa.Slice:
		if _, isSlice := x.X.Type().Underlying().(*types.Slice); isSlice {
			return ownSlice(x.X, seen)
		}
		// slicing a local array (variadic argument packs): new [n]T
		if al, ok := x.X.(*ssa.Alloc); ok {
			_ = al
			return true
		}
		return false
	case *ssa.Phi:
		for _, e := range x.Edges {
			if !ownSlice(e, seen) {
				return false
			}
		}
		return true
	case *ssa.Call:
		if b, ok := x.Call.Value.(*ssa.Builtin); ok && b.Name() == "append" {
			return ownSlice(x.Call.Args[0], seen)
		}
		return false
	case *ssa.UnOp:
		if x.Op != token.MUL {
			return false
		}
		al, ok := x.X.(*ssa.Alloc)
		if !ok || al.Referrers() == nil {
			return false
		}
		for _, r := range *al.Referrers() {
			switch u := r.(type) {
			case *ssa.UnOp, *ssa.DebugRef:
			case *ssa.Store:
				if u.Addr != al || !ownSlice(u.Val, seen) {
					return false
				}
			default:
				return false
			}
		}
		return true
	}
	return false
}

// libraryFuncValue: the function value is the result of a call into a library (e.g. the CancelFunc returned by
// context.WithDeadline), directly or through a local variable that only ever holds such results. Library code
// holds no reference to module state other than what it was given, so calling the value has no effect on it.
func (eng *Engine) libraryFuncValue(v ssa.Value, depth int) bool {
	if depth > 4 {
		return false
	}
	if _, isFn := v.Type().Underlying().(*types.Signature); !isFn {
		return false
	}
	switch x := v.(type) {
	case *ssa.Extract:
		if call, ok := x.Tuple.(*ssa.Call); ok {
			if fn := call.Common().StaticCallee(); fn != nil && !eng.InModule(fn) {
				return true
			}
		}
	case *ssa.Call:
		if fn := x.Common().StaticCallee(); fn != nil && !eng.InModule(fn) {
			return true
		}
	case *ssa.Phi:
		for _, e := range x.Edges {
			if !eng.libraryFuncValue(e, depth+1) {
				return false
			}
		}
		return len(x.Edges) > 0
	case *ssa.UnOp:
		if x.Op != token.MUL {
			return false
		}
		cell := x.X
		if fv, ok := cell.(*ssa.FreeVar); ok {
			// a captured variable: look at the variable itself in the enclosing function
			fn := fv.Parent()
			idx := -1
			for i, f := range fn.FreeVars {
				if f == fv {
					idx = i
				}
			}
			cell = nil
			if par := fn.Parent(); par != nil && idx >= 0 {
				for _, b := range par.Blocks {
					for _, ins := range b.Instrs {
						if mc, ok := ins.(*ssa.MakeClosure); ok && mc.Fn == fn && idx < len(mc.Bindings) {
							cell = mc.Bindings[idx]
						}
					}
				}
			}
			if cell == nil {
				return false
			}
		}
		al, ok := cell.(*ssa.Alloc)
		if !ok || al.Referrers() == nil {
			return false
		}
		return eng.cellHoldsLibraryFuncs(al, depth)
	}
	return false
}

// cellHoldsLibraryFuncs: every assignment to the variable (in its function or in closures capturing it) stores a
// function value returned by a library call
func (eng *Engine) cellHoldsLibraryFuncs(al *ssa.Alloc, depth int) bool {
	stores := 0
	var check func(refs []ssa.Instruction, self ssa.Value) bool
	check = func(refs []ssa.Instruction, self ssa.Value) bool {
		for _, r := range refs {
			switch u := r.(type) {
			case *ssa.UnOp, *ssa.DebugRef:
			case *ssa.Store:
				if u.Addr != self || !eng.libraryFuncValue(u.Val, depth+1) {
					return false
				}
				stores++
			case *ssa.MakeClosure:
				cf, ok := u.Fn.(*ssa.Function)
				if !ok {
					return false
				}
				for i, b := range u.Bindings {
					if b == self && i < len(cf.FreeVars) {
						fv := cf.FreeVars[i]
						if fv.Referrers() != nil && !check(*fv.Referrers(), fv) {
							return false
						}
					}
				}
			default:
				return false
			}
		}
		return true
	}
	if !check(*al.Referrers(), al) {
		return false
	}
	return stores > 0
}
