package govc

// Parser for the contract files: comment-only Go files (//go:build verif) in /repo and
// the assumed-contract file /verif/contracts/stdlib.spec. Only lines starting with "//@" count.

import (
	"bufio"
	"fmt"
	"os"
	"path/filepath"
	"regexp"
	"sort"
	"strings"
)

type Clause struct {
	Kind  string // requires ensures invariant guarantee assume ...
	Label string
	Expr  *CExpr
	Src   string
	File  string
	Line  int
}

// LoopGhost: a ghost array that belongs to one call-site loop; LoopStep: its update after one iteration
type LoopGhost struct{ Name, Key, Val string }
type LoopStep struct {
	Cond  *CExpr
	Ghost string
	Index *CExpr
	Val   *CExpr
	Src   string
}

type FuncContract struct {
	Pkg         string // import path
	Key         string // RelString within package, e.g. (*gateImpl).SetCount
	Requires    []Clause
	Ensures     []Clause
	Reachable   []Clause // "reachable [label] e": some path to the exit satisfies e (discharged by a model, like a vacuity cover)
	Modifies    []*CExpr
	HasModifies bool
	Loops       map[string][]Clause // loop signature -> invariants
	LoopOrder   []string
	LoopGhosts  map[string][]LoopGhost // ghost arrays of a call-site loop (foreach)
	LoopSteps   map[string][]LoopStep  // their updates, one iteration each
	Flags       map[string]string
	Assumed     bool // comes from stdlib.spec: contract is assumed, body never verified
	Emits       []string
	File        string
	Line        int
}

func (c *FuncContract) FullName() string { return c.Pkg + "." + c.Key }

type Monitor struct {
	Pkg        string
	Type       string // struct type name
	Recv       string // name of the object in expressions
	LockPath   *CExpr
	CondPath   *CExpr
	Protects   []string
	Invariants []Clause
	Waitcond   *CExpr
	Guarantees []Clause
	Name       string
	OwnsMaps   []string            // protected map-typed fields whose contents belong to the monitor
	WaitCalls  []string            // interface methods on the lock object that release and re-acquire the monitor
	Owns       map[string][]string // protected pointer field -> fields of the pointee that are protected with it
	OwnsOrder  []string
}

type SpecFunc struct {
	Pkg        string
	Name       string
	Params     []string
	ParamTypes []*CExpr
	Result     *CExpr
	Body       *CExpr // nil => uninterpreted
	Axioms     []Clause
	Rec        bool // recursive: emitted as define-fun-rec with the heap arrays it reads as extra parameters
}

type EventDecl struct {
	Pkg    string
	Name   string
	Callee string // full name pattern of the callee (function or interface method)
	When   *CExpr // optional predicate over a0..an (call arguments; a0 = receiver for methods) and, for ret events, r0..rn
	Ret    bool   // emitted after the call returned (results visible)
	Spawn  bool   // "go": the start of a goroutine running Callee (not a call: the spawner does not wait for it)
	Chan   string // "send" / "recv" / "close": a channel operation on the channel held in struct field Callee (pkg.Type.field)
}

// ChanInv: every value sent on the channel satisfies Pred (over v); receivers may rely on it
type ChanInv struct {
	Pkg  string
	Ref  string // like the channel reference of send/recv events: pkg.Type.field, local:<func>.<var>, call:<f>
	Pred *CExpr
	Src  string
}

type TypeInv struct {
	Pkg     string
	Type    string
	Recv    string
	Clauses []Clause
}

type GlobalDecl struct {
	Pkg  string
	Name string
	Kind string // "racy" etc
	Inv  []Clause
}

type ContractDB struct {
	Funcs    map[string]*FuncContract // key: pkgpath + "." + Key
	Monitors map[string]*Monitor      // key: pkgpath + "." + Type
	Specs    map[string]*SpecFunc     // key: name (global namespace)
	Events   map[string]*EventDecl
	ChanInvs []*ChanInv // invariants on the values a channel carries
	TypeInvs map[string]*TypeInv
	Consts   []ConstClaim
	Files    []string
	Lemmas   []Lemma
	ModSets  map[string][]*CExpr
	GlobalInvs map[string][]Clause // package path -> invariants over package variables
	Immutable  []ImmutableDecl     // fields that are written only while their object is being constructed
	GlobalLocks []GlobalLock       // package variables protected by a package-level mutex
}

// ImmutableDecl: "immutable T.f" — no function of the module stores into field f of a T except the function that
// allocated that very object (checked over the whole module by every check that verifies a function of the package)
type ImmutableDecl struct{ Pkg, Type, Field, Src string }

// GlobalLock: "globallock v by m" — package variable v (read and written by functions that run concurrently, e.g. HTTP
// handlers) is only accessed while the package-level mutex m is held. Obligation monitor/held(global v) at every access in
// a verified function; if m does not exist the obligation cannot be met.
type GlobalLock struct{ Pkg, Var, Lock, Src string }

type Lemma struct {
	Pkg  string
	Name string
	Expr *CExpr
	Src  string
}

type ConstClaim struct {
	Pkg  string
	Name string
	Expr *CExpr
	Src  string
}

func NewContractDB() *ContractDB {
	return &ContractDB{Funcs: map[string]*FuncContract{}, Monitors: map[string]*Monitor{}, Specs: map[string]*SpecFunc{},
		Events: map[string]*EventDecl{}, TypeInvs: map[string]*TypeInv{}, ModSets: map[string][]*CExpr{}, GlobalInvs: map[string][]Clause{}}
}

var labelRe = regexp.MustCompile(`^\[([^\]]+)\]\s*`)

type cline struct {
	text   string
	indent int
	file   string
	line   int
}

func readContractLines(path string) ([]cline, string, error) {
	f, err := os.Open(path)
	if err != nil {
		return nil, "", err
	}
	defer f.Close()
	var out []cline
	pkgName := ""
	sc := bufio.NewScanner(f)
	sc.Buffer(make([]byte, 1<<20), 1<<20)
	n := 0
	for sc.Scan() {
		n++
		l := sc.Text()
		t := strings.TrimSpace(l)
		if strings.HasPrefix(t, "package ") && pkgName == "" {
			pkgName = strings.TrimSpace(strings.TrimPrefix(t, "package "))
			continue
		}
		if !strings.HasPrefix(t, "//@") {
			continue
		}
		body := strings.TrimPrefix(t, "//@")
		// strip trailing comment "// ..."
		if i := strings.Index(body, " // "); i >= 0 {
			body = body[:i]
		}
		trimmed := strings.TrimLeft(body, " \t")
		if trimmed == "" {
			continue
		}
		indent := len(body) - len(trimmed)
		out = append(out, cline{strings.TrimRight(trimmed, " \t"), indent, path, n})
	}
	return out, pkgName, sc.Err()
}

// LoadFile parses one contract file. pkgPath is the import path the file belongs to
// ("" for stdlib.spec, which switches packages with "package <path>" directives).
func (db *ContractDB) LoadFile(path, pkgPath string, assumed bool) error {
	lines, _, err := readContractLines(path)
	if err != nil {
		return err
	}
	db.Files = append(db.Files, path)
	// join continuation lines: a line that starts with an operator continues the previous one
	var joined []cline
	for _, l := range lines {
		if len(joined) > 0 && (strings.HasPrefix(l.text, "&&") || strings.HasPrefix(l.text, "||") || strings.HasPrefix(l.text, "==>") || strings.HasPrefix(l.text, "<==>")) {
			joined[len(joined)-1].text += " " + l.text
			continue
		}
		joined = append(joined, l)
	}
	lines = joined
	errf := func(l cline, f string, a ...interface{}) error {
		return fmt.Errorf("%s:%d: %s", l.file, l.line, fmt.Sprintf(f, a...))
	}
	var curFn *FuncContract
	var curMon *Monitor
	var curTI *TypeInv
	var curSpec *SpecFunc
	reset := func() { curFn, curMon, curTI, curSpec = nil, nil, nil, nil }
	mkClause := func(l cline, kind, rest string) (Clause, error) {
		label := ""
		if m := labelRe.FindStringSubmatch(rest); m != nil {
			label = m[1]
			rest = rest[len(m[0]):]
		}
		e, err := ParseCExpr(rest)
		if err != nil {
			return Clause{}, errf(l, "%v", err)
		}
		return Clause{Kind: kind, Label: label, Expr: e, Src: rest, File: l.file, Line: l.line}, nil
	}
	for _, l := range lines {
		word, rest := l.text, ""
		if i := strings.IndexAny(l.text, " \t"); i >= 0 {
			word, rest = l.text[:i], strings.TrimSpace(l.text[i+1:])
		}
		if l.indent <= 1 { // top-level declaration
			reset()
			switch word {
			case "package":
				if !assumed {
					return errf(l, "package directive only allowed in the assumed-contract file")
				}
				pkgPath = rest
			case "func":
				key := rest
				fc := &FuncContract{Pkg: pkgPath, Key: key, Loops: map[string][]Clause{}, Flags: map[string]string{}, Assumed: assumed, File: l.file, Line: l.line}
				if _, dup := db.Funcs[fc.FullName()]; dup {
					return errf(l, "duplicate contract for %s", fc.FullName())
				}
				db.Funcs[fc.FullName()] = fc
				curFn = fc
			case "functype":
				// contract assumed for every value of a named function type: functype TypeName
				fc := &FuncContract{Pkg: pkgPath, Key: "functype:" + rest, Loops: map[string][]Clause{}, Flags: map[string]string{}, Assumed: true, File: l.file, Line: l.line}
				db.Funcs[fc.FullName()] = fc
				curFn = fc
			case "funcfield":
				// contract assumed for every function value stored in a struct field: funcfield Type.field
				fc := &FuncContract{Pkg: pkgPath, Key: "field:" + rest, Loops: map[string][]Clause{}, Flags: map[string]string{}, Assumed: true, File: l.file, Line: l.line}
				db.Funcs[fc.FullName()] = fc
				curFn = fc
			case "monitor":
				f := strings.Fields(rest)
				if len(f) != 2 {
					return errf(l, "monitor <Type> <recv>")
				}
				m := &Monitor{Pkg: pkgPath, Type: f[0], Recv: f[1], Name: pkgPath + "." + f[0]}
				db.Monitors[m.Name] = m
				curMon = m
			case "typeinv":
				f := strings.Fields(rest)
				if len(f) != 2 {
					return errf(l, "typeinv <Type> <recv>")
				}
				ti := &TypeInv{Pkg: pkgPath, Type: f[0], Recv: f[1]}
				db.TypeInvs[pkgPath+"."+f[0]] = ti
				curTI = ti
			case "spec":
				isRec := false
				if strings.HasPrefix(rest, "rec ") {
					isRec = true
					rest = strings.TrimSpace(rest[4:])
				}
				sf, err := parseSpecDecl(rest)
				if err != nil {
					return errf(l, "%v", err)
				}
				sf.Rec = isRec
				sf.Pkg = pkgPath
				if _, dup := db.Specs[sf.Name]; dup {
					return errf(l, "duplicate spec function %s", sf.Name)
				}
				db.Specs[sf.Name] = sf
				curSpec = sf
			case "event":
				// event Name = call <callee> [when expr]
				m := regexp.MustCompile(`^(\w+)\s*=\s*(call|ret|go|send|recv|close)\s+(\S+)(?:\s+when\s+(.*))?$`).FindStringSubmatch(rest)
				if m == nil {
					return errf(l, "event <Name> = call|ret <callee> [when <expr>]  or  send|recv <Type.field>")
				}
				if _, dup := db.Events[m[1]]; dup {
					return errf(l, "duplicate event %s", m[1])
				}
				ev := &EventDecl{Pkg: pkgPath, Name: m[1], Callee: m[3], Ret: m[2] == "ret"}
				if m[2] == "send" || m[2] == "recv" || m[2] == "close" {
					ev.Chan = m[2]
				}
				if m[2] == "go" {
					ev.Spawn = true
				}
				m[3] = m[4]
				if m[3] != "" {
					e, err := ParseCExpr(m[3])
					if err != nil {
						return errf(l, "%v", err)
					}
					ev.When = e
				}
				db.Events[ev.Name] = ev
			case "chaninv":
				// chaninv <channel ref>: <predicate over v>
				i := strings.Index(rest, ": ")
				if i < 0 {
					return errf(l, "chaninv <channel>: <predicate over v>")
				}
				e, err := ParseCExpr(strings.TrimSpace(rest[i+2:]))
				if err != nil {
					return errf(l, "%v", err)
				}
				db.ChanInvs = append(db.ChanInvs, &ChanInv{Pkg: pkgPath, Ref: strings.TrimSpace(rest[:i]), Pred: e, Src: strings.TrimSpace(rest[i+2:])})
			case "globalinv":
				c, err := mkClause(l, "globalinv", rest)
				if err != nil {
					return err
				}
				db.GlobalInvs[pkgPath] = append(db.GlobalInvs[pkgPath], c)
			case "modset":
				i := strings.Index(rest, "=")
				if i < 0 {
					return errf(l, "modset <name> = <targets>")
				}
				name := strings.TrimSpace(rest[:i])
				for _, part := range splitTopLevel(rest[i+1:], ',') {
					if ms, ok := db.ModSets[part]; ok {
						db.ModSets[name] = append(db.ModSets[name], ms...)
						continue
					}
					e, err := ParseCExpr(part)
					if err != nil {
						return errf(l, "%v", err)
					}
					db.ModSets[name] = append(db.ModSets[name], e)
				}
			case "globallock":
				// globallock <variable> by <mutex variable>: every access to the package variable happens with the package-level mutex held
				f := strings.Fields(rest)
				if len(f) != 3 || f[1] != "by" {
					return errf(l, "globallock <variable> by <mutex variable>")
				}
				db.GlobalLocks = append(db.GlobalLocks, GlobalLock{Pkg: pkgPath, Var: f[0], Lock: f[2], Src: "globallock " + rest})
			case "immutable":
				parts := strings.Split(strings.TrimSpace(rest), ".")
				if len(parts) != 2 {
					return errf(l, "immutable <Type>.<field>")
				}
				db.Immutable = append(db.Immutable, ImmutableDecl{Pkg: pkgPath, Type: parts[0], Field: parts[1], Src: "immutable " + rest})
			case "const":
				e, err := ParseCExpr(rest)
				if err != nil {
					return errf(l, "%v", err)
				}
				name := rest
				if e.Op == "bin" {
					name = e.Args[0].String()
				}
				db.Consts = append(db.Consts, ConstClaim{Pkg: pkgPath, Name: name, Expr: e, Src: rest})
			case "lemma":
				i := strings.Index(rest, ":")
				if i < 0 {
					return errf(l, "lemma <name>: <expr>")
				}
				e, err := ParseCExpr(strings.TrimSpace(rest[i+1:]))
				if err != nil {
					return errf(l, "%v", err)
				}
				db.Lemmas = append(db.Lemmas, Lemma{Pkg: pkgPath, Name: strings.TrimSpace(rest[:i]), Expr: e, Src: rest[i+1:]})
			default:
				return errf(l, "unknown declaration %q", word)
			}
			continue
		}
		switch {
		case curFn != nil:
			switch word {
			case "requires", "ensures", "reachable":
				if word == "assume" && !assumed {
					return errf(l, "assume outside the assumed-contract file")
				}
				c, err := mkClause(l, word, rest)
				if err != nil {
					return err
				}
				if word == "requires" {
					curFn.Requires = append(curFn.Requires, c)
				} else if word == "reachable" {
					curFn.Reachable = append(curFn.Reachable, c)
				} else {
					curFn.Ensures = append(curFn.Ensures, c)
				}
			case "modifies":
				curFn.HasModifies = true
				if rest != "nothing" {
					for _, part := range splitTopLevel(rest, ',') {
						if ms, ok := db.ModSets[part]; ok {
							curFn.Modifies = append(curFn.Modifies, ms...)
							continue
						}
						e, err := ParseCExpr(part)
						if err != nil {
							return errf(l, "%v", err)
						}
						curFn.Modifies = append(curFn.Modifies, e)
					}
				}
			case "loop":
				// loop <signature>: invariant <expr>
				if i := strings.Index(rest, ": ghost "); i >= 0 {
					// loop <signature>: ghost <name> <key type> -> <value type>
					f := strings.Fields(rest[i+len(": ghost "):])
					if len(f) != 4 || f[2] != "->" {
						return errf(l, "loop <signature>: ghost <name> <key type> -> <value type>")
					}
					sig := strings.TrimSpace(rest[:i])
					if curFn.LoopGhosts == nil {
						curFn.LoopGhosts = map[string][]LoopGhost{}
					}
					curFn.LoopGhosts[sig] = append(curFn.LoopGhosts[sig], LoopGhost{Name: f[0], Key: f[1], Val: f[3]})
					break
				}
				if i := strings.Index(rest, ": step "); i >= 0 {
					// loop <signature>: step <cond> ==> <ghost>[<index>] := <value>
					sig := strings.TrimSpace(rest[:i])
					body := rest[i+len(": step "):]
					a := strings.Index(body, " ==> ")
					b := strings.Index(body, " := ")
					if a < 0 || b < a {
						return errf(l, "loop <signature>: step <cond> ==> <ghost>[<index>] := <value>")
					}
					cond, err := ParseCExpr(strings.TrimSpace(body[:a]))
					if err != nil {
						return errf(l, "%v", err)
					}
					lhs, err := ParseCExpr(strings.TrimSpace(body[a+5 : b]))
					if err != nil {
						return errf(l, "%v", err)
					}
					val, err := ParseCExpr(strings.TrimSpace(body[b+4:]))
					if err != nil {
						return errf(l, "%v", err)
					}
					if lhs.Op != "index" || lhs.Args[0].Op != "id" {
						return errf(l, "step: the left-hand side must be <ghost>[<index>]")
					}
					if curFn.LoopSteps == nil {
						curFn.LoopSteps = map[string][]LoopStep{}
					}
					curFn.LoopSteps[sig] = append(curFn.LoopSteps[sig], LoopStep{Cond: cond, Ghost: lhs.Args[0].Name, Index: lhs.Args[1], Val: val, Src: strings.TrimSpace(body)})
					break
				}
				i := strings.Index(rest, ": invariant ")
				if i < 0 {
					return errf(l, "loop <signature>: invariant <expr>")
				}
				sig := strings.TrimSpace(rest[:i])
				c, err := mkClause(l, "invariant", strings.TrimSpace(rest[i+len(": invariant "):]))
				if err != nil {
					return err
				}
				if _, ok := curFn.Loops[sig]; !ok {
					curFn.LoopOrder = append(curFn.LoopOrder, sig)
				}
				curFn.Loops[sig] = append(curFn.Loops[sig], c)
			case "emits":
				curFn.Emits = append(curFn.Emits, strings.Fields(strings.ReplaceAll(rest, ",", " "))...)
			default:
				// flag: "safety on", "strings on", "pure", ...
				curFn.Flags[word] = rest
			}
		case curMon != nil:
			switch word {
			case "lock", "cond", "waitcond":
				e, err := ParseCExpr(rest)
				if err != nil {
					return errf(l, "%v", err)
				}
				switch word {
				case "lock":
					curMon.LockPath = e
				case "cond":
					curMon.CondPath = e
				default:
					curMon.Waitcond = e
				}
			case "protects":
				curMon.Protects = append(curMon.Protects, strings.Fields(strings.ReplaceAll(rest, ",", " "))...)
			case "ownsmap":
				curMon.OwnsMaps = append(curMon.OwnsMaps, strings.Fields(strings.ReplaceAll(rest, ",", " "))...)
			case "waitcall":
				curMon.WaitCalls = append(curMon.WaitCalls, strings.Fields(strings.ReplaceAll(rest, ",", " "))...)
			case "owns":
				i := strings.Index(rest, ":")
				if i < 0 {
					return errf(l, "owns <pointer field>: <fields of the pointee>")
				}
				if curMon.Owns == nil {
					curMon.Owns = map[string][]string{}
				}
				pf := strings.TrimSpace(rest[:i])
				curMon.Owns[pf] = append(curMon.Owns[pf], strings.Fields(strings.ReplaceAll(rest[i+1:], ",", " "))...)
				curMon.OwnsOrder = append(curMon.OwnsOrder, pf)
			case "invariant", "guarantee":
				c, err := mkClause(l, word, rest)
				if err != nil {
					return err
				}
				if word == "invariant" {
					curMon.Invariants = append(curMon.Invariants, c)
				} else {
					curMon.Guarantees = append(curMon.Guarantees, c)
				}
			default:
				return errf(l, "unknown monitor clause %q", word)
			}
		case curTI != nil:
			if word != "inv" {
				return errf(l, "unknown typeinv clause %q", word)
			}
			c, err := mkClause(l, "inv", rest)
			if err != nil {
				return err
			}
			curTI.Clauses = append(curTI.Clauses, c)
		case curSpec != nil:
			if word != "axiom" {
				return errf(l, "unknown spec clause %q", word)
			}
			c, err := mkClause(l, "axiom", rest)
			if err != nil {
				return err
			}
			curSpec.Axioms = append(curSpec.Axioms, c)
		default:
			return errf(l, "clause outside of a declaration: %s", l.text)
		}
	}
	return nil
}

// spec name(p1 T1, p2 T2) R [= body]
func parseSpecDecl(s string) (*SpecFunc, error) {
	i := strings.Index(s, "(")
	if i < 0 {
		return nil, fmt.Errorf("spec: missing '('")
	}
	sf := &SpecFunc{Name: strings.TrimSpace(s[:i])}
	depth, j := 0, i
	for ; j < len(s); j++ {
		if s[j] == '(' {
			depth++
		} else if s[j] == ')' {
			depth--
			if depth == 0 {
				break
			}
		}
	}
	if j >= len(s) {
		return nil, fmt.Errorf("spec: unbalanced parens")
	}
	params := strings.TrimSpace(s[i+1 : j])
	if params != "" {
		for _, p := range splitTopLevel(params, ',') {
			f := strings.Fields(p)
			if len(f) != 2 {
				return nil, fmt.Errorf("spec: parameter %q must be 'name type'", p)
			}
			sf.Params = append(sf.Params, f[0])
			sf.ParamTypes = append(sf.ParamTypes, &CExpr{Op: "type", Name: f[1]})
		}
	}
	rest := strings.TrimSpace(s[j+1:])
	body := ""
	if k := strings.Index(rest, "="); k >= 0 && !strings.HasPrefix(rest[k:], "==") {
		body = strings.TrimSpace(rest[k+1:])
		rest = strings.TrimSpace(rest[:k])
	}
	if rest == "" {
		return nil, fmt.Errorf("spec: result type missing")
	}
	sf.Result = &CExpr{Op: "type", Name: rest}
	if body != "" {
		e, err := ParseCExpr(body)
		if err != nil {
			return nil, err
		}
		sf.Body = e
	}
	return sf, nil
}

func splitTopLevel(s string, sep byte) []string {
	var out []string
	depth, start := 0, 0
	for i := 0; i < len(s); i++ {
		switch s[i] {
		case '(', '[':
			depth++
		case ')', ']':
			depth--
		case sep:
			if depth == 0 {
				out = append(out, strings.TrimSpace(s[start:i]))
				start = i + 1
			}
		}
	}
	out = append(out, strings.TrimSpace(s[start:]))
	return out
}

// LoadRepoContracts loads every zz_verif_contracts.go below root; the import path is derived
// from the directory relative to root with the module path prefix.
func (db *ContractDB) LoadRepoContracts(root, modPath string) error {
	var files []string
	err := filepath.Walk(root, func(p string, info os.FileInfo, err error) error {
		if err != nil {
			return err
		}
		if info.IsDir() && (info.Name() == ".git" || info.Name() == "testdata") {
			return filepath.SkipDir
		}
		if !info.IsDir() && info.Name() == "zz_verif_contracts.go" {
			files = append(files, p)
		}
		return nil
	})
	if err != nil {
		return err
	}
	sort.Strings(files)
	for _, f := range files {
		rel, _ := filepath.Rel(root, filepath.Dir(f))
		pkg := modPath
		if rel != "." {
			pkg = modPath + "/" + filepath.ToSlash(rel)
		}
		if err := db.LoadFile(f, pkg, false); err != nil {
			return err
		}
	}
	return nil
}
