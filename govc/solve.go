package govc

import (
	"bytes"
	"regexp"
	"context"
	"fmt"
	"os"
	"os/exec"
	"path/filepath"
	"strings"
	"sync"
	"time"
)

type SolverResult struct {
	Status  string // "unsat", "sat", "unknown", "timeout", "error"
	Solver  string
	Seconds float64
	Output  string
	Model   string
	All     map[string]string // solver -> status (thorough: every solver's answer)
}

type SolverCfg struct {
	Name string
	Cmd  []string // file name appended
}

func DefaultSolvers(timeoutS int) []SolverCfg {
	return []SolverCfg{
		{"z3-5.1.0", []string{"z3-new", fmt.Sprintf("-T:%d", timeoutS)}},
		{"z3-4.8.12", []string{"/usr/bin/z3", fmt.Sprintf("-T:%d", timeoutS)}},
		{"cvc5-1.0.3", []string{"cvc5", fmt.Sprintf("--tlimit=%d", timeoutS*1000), "--produce-models", "--strings-exp"}},
	}
}

// Script assembles the SMT-LIB query of one obligation.
func (u *Unit) Script(ob *Obligation, pi int) string { return u.ScriptDepth(ob, pi, 0) }

// ScriptDepth: the query with the hypotheses restricted to those within 'depth' sharing steps of the goal (0 = the
// full cone of influence). Fewer hypotheses can only make a validity proof harder, so an 'unsat' of a focused query
// is as good as one of the full query; any other answer of a focused query means nothing.
func (u *Unit) ScriptDepth(ob *Obligation, pi int, depth int) string {
	part := ob.Parts[pi]
	var sb strings.Builder
	sb.WriteString("(set-option :produce-models true)\n(set-logic ALL)\n")
	for _, d := range u.Sorts.decls {
		sb.WriteString(d)
		sb.WriteByte('\n')
	}
	sliced := sliceItemsDepth(u.Items[:part.Prefix], part.Goal, depth)
	declared := map[string]bool{}
	seenLine := map[string]bool{}
	for _, it := range sliced {
		if strings.HasPrefix(it, "(assert ") {
			if seenLine[it] {
				continue
			}
			seenLine[it] = true
		}
		if strings.HasPrefix(it, "(declare-") || strings.HasPrefix(it, "(define-fun") {
			if sy := symbolsOf(it); len(sy) > 0 {
				declared[sy[0]] = true
			}
		}
		sb.WriteString(it)
		sb.WriteByte('\n')
	}
	if ob.Expect == "sat" {
		sb.WriteString("(assert " + part.Goal + ")\n")
	} else {
		sb.WriteString("(assert (not " + part.Goal + "))\n")
	}
	sb.WriteString("(check-sat)\n")
	if len(part.Witness) > 0 && ob.Expect != "sat" {
		var ts []string
		for _, w := range part.Witness {
			ok := true
			for _, sy := range symbolsOf(w.Term) {
				if !declared[sy] {
					ok = false
				}
			}
			if ok {
				ts = append(ts, w.Term)
			} else {
				ts = append(ts, "0") // sliced away: keeps the positions of the answers aligned with the witness list
			}
		}
		sb.WriteString("(get-value (" + strings.Join(ts, " ") + "))\n")
	}
	return sb.String()
}

func firstLine(s string) string {
	s = strings.TrimSpace(s)
	if i := strings.IndexByte(s, '\n'); i >= 0 {
		return strings.TrimSpace(s[:i])
	}
	return s
}

func runSolver(ctx context.Context, cfg SolverCfg, file string) (status, output string, secs float64) {
	start := time.Now()
	args := append(append([]string{}, cfg.Cmd[1:]...), file)
	cmd := exec.CommandContext(ctx, cfg.Cmd[0], args...)
	var out bytes.Buffer
	cmd.Stdout = &out
	cmd.Stderr = &out
	_ = cmd.Run()
	secs = time.Since(start).Seconds()
	output = out.String()
	fl := firstLine(output)
	switch {
	case fl == "unsat":
		return "unsat", output, secs
	case fl == "sat":
		return "sat", output, secs
	case fl == "unknown":
		return "unknown", output, secs
	case strings.Contains(fl, "timeout") || strings.Contains(output, "interrupted by timeout") || ctx.Err() != nil:
		return "timeout", output, secs
	}
	return "error", output, secs
}

// Solve races the solvers on one script. all=true waits for every solver (thorough tier).
func Solve(script, dir, name string, solvers []SolverCfg, all bool) SolverResult {
	return SolveCtx(context.Background(), script, dir, name, solvers, all)
}

func SolveCtx(parent context.Context, script, dir, name string, solvers []SolverCfg, all bool) SolverResult {
	file := filepath.Join(dir, sanitizeFile(name)+".smt2")
	if err := os.WriteFile(file, []byte(script), 0o644); err != nil {
		return SolverResult{Status: "error", Output: err.Error()}
	}
	ctx, cancel := context.WithCancel(parent)
	defer cancel()
	type ans struct {
		cfg    SolverCfg
		status string
		out    string
		secs   float64
	}
	ch := make(chan ans, len(solvers))
	for _, s := range solvers {
		go func(s SolverCfg) {
			st, out, secs := runSolver(ctx, s, file)
			ch <- ans{s, st, out, secs}
		}(s)
	}
	res := SolverResult{Status: "unknown", All: map[string]string{}}
	var outs []string
	got := 0
	for got < len(solvers) {
		a := <-ch
		got++
		res.All[a.cfg.Name] = a.status
		outs = append(outs, fmt.Sprintf("--- %s (%.2fs): %s", a.cfg.Name, a.secs, truncate(a.out, 4000)))
		if a.status == "unsat" || a.status == "sat" {
			if res.Status != "unsat" && res.Status != "sat" {
				res.Status, res.Solver, res.Seconds = a.status, a.cfg.Name, a.secs
				if a.status == "sat" {
					res.Model = a.out
				}
			} else if res.Status != a.status {
				res.Status = "disagree"
			}
			if !all {
				cancel()
				break
			}
		} else if res.Status == "unknown" && a.status == "timeout" {
			res.Status = "timeout"
		}
	}
	res.Output = strings.Join(outs, "\n")
	return res
}

func truncate(s string, n int) string {
	if len(s) > n {
		return s[:n] + "...[truncated]"
	}
	return s
}

func sanitizeFile(s string) string {
	var sb strings.Builder
	for _, c := range s {
		switch {
		case c >= 'a' && c <= 'z', c >= 'A' && c <= 'Z', c >= '0' && c <= '9', c == '.', c == '-', c == '_':
			sb.WriteRune(c)
		default:
			sb.WriteByte('_')
		}
	}
	r := sb.String()
	if len(r) > 150 {
		r = r[:150]
	}
	return r
}

type ObResult struct {
	Ob       *Obligation
	U        *Unit
	Res      SolverResult // aggregated over parts (first failing part's result if any)
	FailPart int          // index of the failing part, -1 if none
	OK       bool
	Seconds  float64
	Bytes    int
	Solvers  map[string]int
}

// SolveAll discharges all obligations (every part of each) with a worker pool.
func SolveAll(units []*Unit, dir string, solvers []SolverCfg, workers int, all bool) []ObResult {
	type job struct {
		u      *Unit
		ob     *Obligation
		oi, pi int
	}
	var jobs []job
	var results []ObResult
	for _, u := range units {
		for _, ob := range u.Obls {
			oi := len(results)
			results = append(results, ObResult{Ob: ob, U: u, FailPart: -1, OK: true, Solvers: map[string]int{}})
			for pi := range ob.Parts {
				jobs = append(jobs, job{u, ob, oi, pi})
			}
		}
	}
	var mu sync.Mutex
	var wg sync.WaitGroup
	ch := make(chan job)
	for w := 0; w < workers; w++ {
		wg.Add(1)
		go func() {
			defer wg.Done()
			for j := range ch {
				script := j.u.Script(j.ob, j.pi)
				sv := solvers
				if j.ob.Expect == "sat" {
					sv = DefaultSolvers(3) // vacuity covers only need a quick model
				}
				var r SolverResult
				ok := false
				if j.ob.Expect == "sat" {
					r = Solve(script, dir, fmt.Sprintf("%04d_%d_%s", j.oi, j.pi, j.ob.Name), sv, false)
					ok = r.Status == "sat"
				} else {
					r, ok = solveStaged(j.u, j.ob, j.pi, script, dir, fmt.Sprintf("%04d_%d", j.oi, j.pi), sv, all)
				}
				mu.Lock()
				res := &results[j.oi]
				res.Seconds += r.Seconds
				res.Bytes += len(script)
				res.Solvers[r.Solver]++
				if !ok && (res.OK || j.pi < res.FailPart) {
					res.OK = false
					res.FailPart = j.pi
					res.Res = r
				} else if res.OK {
					res.Res = r
				}
				mu.Unlock()
			}
		}()
	}
	for _, j := range jobs {
		ch <- j
	}
	close(ch)
	wg.Wait()
	return results
}

// solveStaged: the full query first; when it has not answered after a short while, focused queries (hypotheses near
// the goal only) run beside it. 'unsat' from any of them proves the obligation; 'sat' counts only from the full query.
func solveStaged(u *Unit, ob *Obligation, pi int, script, dir, prefix string, sv []SolverCfg, all bool) (SolverResult, bool) {
	ctx, cancel := context.WithCancel(context.Background())
	defer cancel()
	fullCh := make(chan SolverResult, 1)
	go func() { fullCh <- SolveCtx(ctx, script, dir, prefix+"_"+ob.Name, sv, all) }()
	patience := time.NewTimer(1500 * time.Millisecond)
	defer patience.Stop()
	select {
	case r := <-fullCh:
		if r.Status == "unsat" || r.Status == "sat" || r.Status == "disagree" {
			return r, r.Status == "unsat"
		}
		// no answer at all: focused queries, one after the other
		for depth := 1; depth <= 3; depth++ {
			fs := u.ScriptDepth(ob, pi, depth)
			if len(fs) >= len(script) {
				break
			}
			r2 := SolveCtx(ctx, fs, dir, fmt.Sprintf("%s_f%d_%s", prefix, depth, ob.Name), sv, false)
			if r2.Status == "unsat" {
				r2.Solver = fmt.Sprintf("%s+focus%d", r2.Solver, depth)
				r2.Seconds += r.Seconds
				return r2, true
			}
		}
		return r, false
	case <-patience.C:
	}
	focusCh := make(chan SolverResult, 1)
	go func() {
		// the three focused queries run side by side; the first 'unsat' wins
		type fr struct {
			r SolverResult
			d int
		}
		ch := make(chan fr, 3)
		n := 0
		seen := map[int]bool{}
		for depth := 1; depth <= 3; depth++ {
			fs := u.ScriptDepth(ob, pi, depth)
			if len(fs) >= len(script) || seen[len(fs)] {
				continue
			}
			seen[len(fs)] = true
			n++
			go func(depth int, fs string) {
				ch <- fr{SolveCtx(ctx, fs, dir, fmt.Sprintf("%s_f%d_%s", prefix, depth, ob.Name), sv, false), depth}
			}(depth, fs)
		}
		for ; n > 0; n-- {
			x := <-ch
			if x.r.Status == "unsat" {
				x.r.Solver = fmt.Sprintf("%s+focus%d", x.r.Solver, x.d)
				focusCh <- x.r
				return
			}
		}
		focusCh <- SolverResult{Status: "unknown"}
	}()
	var full *SolverResult
	focusDone := false
	for full == nil || !focusDone {
		select {
		case r := <-fullCh:
			if r.Status == "unsat" || r.Status == "sat" || r.Status == "disagree" {
				return r, r.Status == "unsat"
			}
			full = &r
		case r2 := <-focusCh:
			focusDone = true
			if r2.Status == "unsat" && !all {
				return r2, true
			}
			if r2.Status == "unsat" {
				// thorough tier: the full query's solvers still get their time; the focused proof stands if they stay silent
				r := <-fullCh
				if r.Status == "sat" || r.Status == "disagree" || r.Status == "unsat" {
					return r, r.Status == "unsat"
				}
				return r2, true
			}
		}
	}
	return *full, false
}

// ---- cone-of-influence slicing of the hypotheses of one query ----
// Dropping hypotheses is always sound for a validity query (it can only make the proof harder); it keeps
// quantified facts about unrelated state out of queries that are about something else.

var symRe = regexp.MustCompile(`\|[^|]*\||embid|globid|str\.ofbytes`)

func symbolsOf(s string) []string { return symRe.FindAllString(s, -1) }

// guard symbols and the allocation counter occur in almost every hypothesis: they do not make one relevant
func isGuardSym(s string) bool {
	return strings.HasPrefix(s, "|reach.") || strings.HasPrefix(s, "|edge!") || strings.HasPrefix(s, "|pc!") || strings.HasPrefix(s, "|G.alloc")
}

func sliceItems(items []string, goal string) []string { return sliceItemsDepth(items, goal, 0) }

// in a focused query the parameters and the addresses of embedded parts do not make a hypothesis relevant either
func isFocusHub(s string) bool {
	return strings.HasPrefix(s, "|p.") || strings.HasPrefix(s, "|fv.") || strings.HasPrefix(s, "|emb.") || strings.HasPrefix(s, "|embinv.") || s == "embid"
}

func sliceItemsDepth(items []string, goal string, depth int) []string {
	if os.Getenv("GOVC_NOSLICE") != "" && depth == 0 {
		return items
	}
	type it struct {
		kind  string // decl, def, assert
		name  string
		guard []string
		body  []string
	}
	parsed := make([]it, len(items))
	for i, t := range items {
		switch {
		case strings.HasPrefix(t, "(declare-const ") || strings.HasPrefix(t, "(declare-fun "):
			syms := symbolsOf(t)
			n := ""
			if len(syms) > 0 {
				n = syms[0]
			} else {
				f := strings.Fields(t)
				if len(f) > 1 {
					n = f[1]
				}
			}
			parsed[i] = it{kind: "decl", name: n}
		case strings.HasPrefix(t, "(define-fun ") || strings.HasPrefix(t, "(define-fun-rec "):
			syms := symbolsOf(t)
			if len(syms) == 0 {
				parsed[i] = it{kind: "assert", body: nil}
				continue
			}
			parsed[i] = it{kind: "def", name: syms[0], body: syms[1:]}
		case strings.HasPrefix(t, "(assert "):
			x := it{kind: "assert"}
			rest := t
			if strings.HasPrefix(t, "(assert (=> |") {
				j := strings.Index(t[13:], "|")
				if j >= 0 {
					g := t[12 : 13+j+1]
					if isGuardSym(g) {
						x.guard = []string{g}
						rest = t[13+j+1:]
					}
				}
			}
			x.body = symbolsOf(rest)
			parsed[i] = x
		default:
			parsed[i] = it{kind: "assert"}
		}
	}
	cone := map[string]bool{}
	for _, s := range symbolsOf(goal) {
		cone[s] = true
	}
	keep := make([]bool, len(items))
	cone0 := cone
	changed := true
	round := 0
	for changed {
		changed = false
		round++
		// definitions are always followed to their end
		for defs := true; defs; {
			defs = false
			for i := range parsed {
				x := &parsed[i]
				if !keep[i] && x.kind == "def" && cone[x.name] {
					keep[i] = true
					defs, changed = true, true
					for _, s := range x.body {
						cone[s] = true
					}
				}
			}
		}
		if depth > 0 && round > depth {
			break
		}
		// a focused query takes the hypotheses of one round from the cone as it stood when the round began
		frozen := cone
		if depth > 0 {
			frozen = map[string]bool{}
			for k := range cone {
				frozen[k] = true
			}
		}
		for i := range parsed {
			x := &parsed[i]
			if keep[i] {
				continue
			}
			switch x.kind {
			case "assert":
				cone := frozen
				rel := len(x.body) == 0
				onlyHubs := true
				hubInCone := false
				for _, s := range x.body {
					if !isGuardSym(s) && !(depth > 0 && isFocusHub(s)) {
						onlyHubs = false
						if cone[s] {
							rel = true
							break
						}
					} else if cone[s] {
						hubInCone = true
					}
				}
				if onlyHubs && hubInCone {
					rel = true // cheap facts about the allocation counter / path conditions themselves
				}
				if rel {
					keep[i] = true
					changed = true
					for _, s := range x.body {
						cone0[s] = true
					}
					for _, s := range x.guard {
						cone0[s] = true
					}
				}
			}
		}
	}
	noQuant := os.Getenv("GOVC_NOQUANT") != "" // development aid: drop quantified hypotheses to obtain a model quickly
	var out []string
	for i, t := range items {
		if noQuant && strings.Contains(t, "(forall ") && parsed[i].kind == "assert" {
			continue
		}
		switch parsed[i].kind {
		case "decl":
			if cone[parsed[i].name] {
				out = append(out, t)
			}
		default:
			if keep[i] {
				out = append(out, t)
			}
		}
	}
	return out
}
