package govc

import (
	"fmt"
	"regexp/syntax"
	"strings"
)

// regexToSMT translates a Go (RE2) pattern into an SMT-LIB RegLan term by structural recursion over
// the regexp/syntax AST. anchoredOnly=false gives MatchString semantics: Σ* L Σ* unless the pattern
// carries explicit ^ / $ anchors (only supported at the very beginning / end of the pattern).
func regexToSMT(pattern string, _ bool) (string, error) {
	re, err := syntax.Parse(pattern, syntax.Perl)
	if err != nil {
		return "", err
	}
	re = re.Simplify()
	begin, end := false, false
	// strip leading ^ and trailing $ of a top-level concatenation
	if re.Op == syntax.OpConcat {
		subs := re.Sub
		if len(subs) > 0 && (subs[0].Op == syntax.OpBeginText || subs[0].Op == syntax.OpBeginLine && false) {
			begin = true
			subs = subs[1:]
		}
		if len(subs) > 0 && subs[len(subs)-1].Op == syntax.OpEndText {
			end = true
			subs = subs[:len(subs)-1]
		}
		re = &syntax.Regexp{Op: syntax.OpConcat, Sub: subs, Flags: re.Flags}
	}
	body, err := reToSMT(re)
	if err != nil {
		return "", err
	}
	parts := []string{}
	if !begin {
		parts = append(parts, "re.all")
	}
	parts = append(parts, body)
	if !end {
		parts = append(parts, "re.all")
	}
	if len(parts) == 1 {
		return parts[0], nil
	}
	return "(re.++ " + strings.Join(parts, " ") + ")", nil
}

func reToSMT(re *syntax.Regexp) (string, error) {
	switch re.Op {
	case syntax.OpEmptyMatch:
		return "(str.to_re \"\")", nil
	case syntax.OpLiteral:
		var sb strings.Builder
		for _, r := range re.Rune {
			if r > 127 {
				return "", fmt.Errorf("non-ASCII literal in pattern")
			}
			sb.WriteRune(r)
		}
		if re.Flags&syntax.FoldCase != 0 {
			return "", fmt.Errorf("case folding not supported")
		}
		return "(str.to_re " + smtString(sb.String()) + ")", nil
	case syntax.OpCharClass:
		var alts []string
		for i := 0; i+1 < len(re.Rune); i += 2 {
			lo, hi := re.Rune[i], re.Rune[i+1]
			if hi > 255 {
				hi = 255 // strings are modelled as byte sequences
			}
			if lo > hi {
				continue
			}
			alts = append(alts, fmt.Sprintf("(re.range %s %s)", smtString(string([]byte{byte(lo)})), smtString(string([]byte{byte(hi)}))))
		}
		if len(alts) == 0 {
			return "re.none", nil
		}
		if len(alts) == 1 {
			return alts[0], nil
		}
		return "(re.union " + strings.Join(alts, " ") + ")", nil
	case syntax.OpAnyChar:
		return "re.allchar", nil
	case syntax.OpAnyCharNotNL:
		return "(re.diff re.allchar (str.to_re \"\\u{a}\"))", nil
	case syntax.OpCapture:
		return reToSMT(re.Sub[0])
	case syntax.OpStar, syntax.OpPlus, syntax.OpQuest:
		s, err := reToSMT(re.Sub[0])
		if err != nil {
			return "", err
		}
		op := map[syntax.Op]string{syntax.OpStar: "re.*", syntax.OpPlus: "re.+", syntax.OpQuest: "re.opt"}[re.Op]
		return "(" + op + " " + s + ")", nil
	case syntax.OpConcat, syntax.OpAlternate:
		if len(re.Sub) == 0 {
			return "(str.to_re \"\")", nil
		}
		var parts []string
		for _, sub := range re.Sub {
			s, err := reToSMT(sub)
			if err != nil {
				return "", err
			}
			parts = append(parts, s)
		}
		if len(parts) == 1 {
			return parts[0], nil
		}
		if re.Op == syntax.OpConcat {
			return "(re.++ " + strings.Join(parts, " ") + ")", nil
		}
		return "(re.union " + strings.Join(parts, " ") + ")", nil
	}
	return "", fmt.Errorf("unsupported regexp construct %v", re.Op)
}
