package main

import (
	"os"
	"strings"

	"govc"
)

func dumpSSA(args []string) {
	eng, err := govc.LoadRepo("/repo")
	if err != nil {
		panic(err)
	}
	for name, fn := range eng.Funcs {
		for _, a := range args {
			if strings.Contains(name, a) {
				fn.WriteTo(os.Stdout)
			}
		}
	}
}
