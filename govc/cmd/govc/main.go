package main

import (
	"fmt"
	"os"
	"strings"

	"govc"
)

func main() {
	if len(os.Args) < 2 {
		fmt.Fprintln(os.Stderr, "usage: govc <command> ...")
		os.Exit(2)
	}
	switch os.Args[1] {
	case "unit":
		devUnit(os.Args[2:])
	case "check":
		os.Exit(govc.CheckMain(os.Args[2:]))
	case "effects":
		eng, err := govc.LoadRepo("/repo")
		if err != nil {
			fmt.Fprintln(os.Stderr, err)
			os.Exit(2)
		}
		for name, fn := range eng.Funcs {
			for _, a := range os.Args[2:] {
				if strings.Contains(name, a) {
					fmt.Println(name, eng.EffectsString(fn))
					fmt.Println("   events:", eng.EventEffectsString(fn))
				}
			}
		}
	case "races":
		repo := "/repo"
		if len(os.Args) > 2 {
			repo = os.Args[2]
		}
		eng, err := govc.LoadRepo(repo)
		if err != nil {
			fmt.Fprintln(os.Stderr, err)
			os.Exit(2)
		}
		for _, r := range eng.AllSpawnRaces() {
			fmt.Printf("%s starts %s, which reads %s; assigned again at %s\n", r.Spawner, r.Closure, r.Var, eng.Prog.Fset.Position(r.Store.Pos()))
		}
	case "ssa":
		dumpSSA(os.Args[2:])
	case "selftest":
		os.Exit(govc.SelfTestMain(os.Args[2:]))
	default:
		fmt.Fprintln(os.Stderr, "unknown command")
		os.Exit(2)
	}
}

// devUnit: govc unit [-dump] <substring of function name> ...   (development aid)
func devUnit(args []string) {
	dump := false
	if len(args) > 0 && args[0] == "-dump" {
		dump = true
		args = args[1:]
	}
	eng, err := govc.LoadRepo("/repo")
	if err != nil {
		fmt.Fprintln(os.Stderr, err)
		os.Exit(2)
	}
	dir, _ := os.MkdirTemp("", "govc")
	defer os.RemoveAll(dir)
	for name, fn := range eng.Funcs {
		match := false
		for _, a := range args {
			if strings.Contains(name, a) {
				match = true
			}
		}
		if !match {
			continue
		}
		u := eng.GenUnit(fn)
		fmt.Printf("== %s: %d items, %d obligations, unsupported=%v\n", name, len(u.Items), len(u.Obls), u.Unsupported)
		for _, w := range u.Warnings {
			fmt.Println("   warn:", w)
		}
		for _, w := range u.Assumptions {
			fmt.Println("   assume:", w)
		}
		res := govc.SolveAll([]*govc.Unit{u}, dir, govc.DefaultSolvers(10), 8, false)
		for _, r := range res {
			mark := "ok  "
			if !r.OK {
				mark = "FAIL"
			}
			fmt.Printf("   %s %-8s %-10s %.2fs %s\n", mark, r.Res.Status, r.Res.Solver, r.Res.Seconds, r.Ob.Name)
			if sel := os.Getenv("GOVC_DUMPALL"); sel != "" && strings.Contains(r.Ob.Name, sel) {
				os.WriteFile("/tmp/ok.smt2", []byte(u.Script(r.Ob, len(r.Ob.Parts)-1)), 0o644)
			}
			if !r.OK {
				fmt.Println("        src:", r.Ob.Src)
				if dump {
					fmt.Println(r.Res.Output)
					if sel := os.Getenv("GOVC_DUMPOB"); sel == "" || strings.Contains(r.Ob.Name, sel) {
						os.WriteFile("/tmp/fail.smt2", []byte(u.Script(r.Ob, r.FailPart)), 0o644)
						for d := 1; d <= 3; d++ {
							os.WriteFile(fmt.Sprintf("/tmp/fail_f%d.smt2", d), []byte(u.ScriptDepth(r.Ob, r.FailPart, d)), 0o644)
						}
					}
				}
			}
		}
	}
}
