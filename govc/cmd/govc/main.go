package main

import (
	"fmt"
	"os"
	"strings"

	"golang.org/x/tools/go/packages"
	"golang.org/x/tools/go/ssa"
	"golang.org/x/tools/go/ssa/ssautil"
)

func main() {
	cfg := &packages.Config{Mode: packages.LoadAllSyntax, Dir: "/repo", BuildFlags: []string{"-tags=verif"}}
	pkgs, err := packages.Load(cfg, os.Args[2:]...)
	if err != nil {
		panic(err)
	}
	prog, _ := ssautil.AllPackages(pkgs, ssa.GlobalDebug)
	prog.Build()
	for f := range ssautil.AllFunctions(prog) {
		if strings.Contains(f.String(), os.Args[1]) {
			f.WriteTo(os.Stdout)
		}
	}
	fmt.Println("ok")
}
