package govc

// Call-by-body for small helpers without a contract.
//
// A module function that has no contract used to be summarised at a call by its computed write set (havoc) with arbitrary
// results and forgotten ghost events. Extracting two lines of a function under contract into an unexported helper therefore made
// the caller's obligations fail although nothing changed: a false alarm on a behaviour-preserving edit. Such a helper is now
// translated in place: its blocks are run by a nested generator that shares the caller's unit, heap state, ghost state, path
// condition and counters, with the parameters bound to the argument terms. This is ordinary symbolic execution of the real body
// (more precise than the summary, never less sound). It is done only for bodies without loops, defer, go, select, panic or
// recover, without direct stores to the heap (type-invariant bookkeeping is per function), of at most inlineMaxInstrs SSA
// instructions, to a nesting depth of inlineMaxDepth, and never recursively; everything else keeps the summary.

import (
	"fmt"
	"go/types"
	"strings"

	"golang.org/x/tools/go/ssa"
)

const (
	inlineMaxInstrs = 80
	inlineMaxDepth  = 2
)

func (g *vcgen) inlinable(fn *ssa.Function) bool {
	if fn == nil || fn.Blocks == nil || len(fn.FreeVars) > 0 || fn.Recover != nil {
		return false
	}
	if len(g.inlineStack) >= inlineMaxDepth {
		return false
	}
	for _, f := range g.inlineStack {
		if f == fn {
			return false
		}
	}
	if fn == g.fn {
		return false
	}
	n := 0
	rets := 0
	for _, b := range fn.Blocks {
		for _, s := range b.Succs {
			if s.Dominates(b) {
				return false // a loop: needs an invariant
			}
		}
		for _, ins := range b.Instrs {
			n++
			switch x := ins.(type) {
			case *ssa.Defer, *ssa.Go, *ssa.Select, *ssa.Panic, *ssa.RunDefers, *ssa.MapUpdate, *ssa.Send, *ssa.MakeClosure, *ssa.Range, *ssa.Next:
				return false
			case *ssa.Store:
				if _, local := x.Addr.(*ssa.Alloc); !local {
					return false
				}
			case *ssa.Return:
				rets++
			}
		}
	}
	return n <= inlineMaxInstrs && rets > 0
}

// inlineCall translates the body of fn at the current program point. ok is false if fn is not inlinable (nothing was emitted).
func (g *vcgen) inlineCall(fn *ssa.Function, args []string) (results []string, ok bool) {
	if !g.inlinable(fn) || len(args) != len(fn.Params) {
		return nil, false
	}
	g2 := *g // maps are shared on purpose (declarations, ordinals, lock snapshots, fresh objects, obligations of the unit)
	g2.fn = fn
	g2.fc = nil
	g2.vals = map[ssa.Value]string{}
	g2.tup = map[ssa.Value][]string{}
	g2.addr = map[ssa.Value]addrInfo{}
	g2.blockEntry = nil
	g2.blockExit = map[*ssa.BasicBlock]*State{}
	g2.edgeCond = map[[2]int]string{}
	g2.reach = map[*ssa.BasicBlock]string{}
	g2.defers = nil
	g2.rets = nil
	g2.exitRes = nil
	g2.params = map[string]cval{}
	g2.sharedCell = map[ssa.Value]bool{}
	g2.sharedSince = nil
	g2.rangeVis = map[ssa.Value]string{}
	g2.curRange = nil
	g2.rangeMap = nil
	g2.loopInvs = map[*ssa.BasicBlock][]Clause{}
	g2.closures = map[string]*ssa.MakeClosure{}
	g2.inlineStack = append(append([]*ssa.Function(nil), g.inlineStack...), fn)
	g2.entryPC = g.pc
	for i, p := range fn.Params {
		g2.vals[p] = args[i]
	}
	if fn.Signature.Recv() != nil && len(args) > 0 && !g.safety {
		if _, isPtr := fn.Signature.Recv().Type().Underlying().(*types.Pointer); isPtr {
			// as in a unit of its own: without safety a method may assume its receiver (the blanket assumption on nil
			// dereferences); with safety the call site has just proved it (safe/nil(receiver ...))
			g.assume(fmt.Sprintf("(not (= %s 0))", args[0]))
		}
	}
	order := g2.analyseCFG()
	g2.loopSig = map[*ssa.BasicBlock]string{}
	for _, b := range order {
		g2.block(b)
	}
	if len(g2.rets) == 0 {
		// cannot happen (inlinable requires a return), but never leave the caller in a half-translated state silently
		g.unsupported("inlined call of %s has no reachable return", FullName(fn))
	}
	// back to the caller: counters and accumulated lists, then the merged exit state and the results
	g.fresh = g2.fresh
	g.witness = g2.witness
	g.inputs = g2.inputs
	g.feOrd = g2.feOrd
	var conds []string
	var states []*State
	for _, r := range g2.rets {
		conds = append(conds, r.pc)
		states = append(states, r.st)
	}
	if len(conds) > 0 {
		g.st = g.mergeStates(conds, states)
	}
	sig := fn.Signature
	for k := 0; k < sig.Results().Len(); k++ {
		term := g2.rets[len(g2.rets)-1].results[k]
		for i := len(g2.rets) - 2; i >= 0; i-- {
			term = fmt.Sprintf("(ite %s %s %s)", g2.rets[i].pc, g2.rets[i].results[k], term)
		}
		results = append(results, g.define("inl."+fn.Name(), g.s.sortOf(sig.Results().At(k).Type()), term))
	}
	// a path of the caller continues only through a return of the callee (no panics in an inlinable body, but a nil
	// dereference inside is, without safety, the blanket assumption: the reach condition then narrows the caller's path)
	if len(conds) > 0 {
		g.assume("(or " + strings.Join(conds, " ") + " false)")
	}
	g.noteAssumption("helper without contract translated in place (call by body): " + shortName(FullName(fn)))
	return results, true
}
