package govc

import (
	"fmt"
	"go/constant"
	"go/types"
	"math/big"
	"strings"
)

// sorts: per-VC-unit registry of SMT sort declarations, emitted before everything else.
type sorts struct {
	decls    []string
	declared map[string]bool
	eng      *Engine
	structs  map[string]*types.Struct // sort name -> struct
	structT  map[string]types.Type
}

func newSorts(e *Engine) *sorts {
	s := &sorts{declared: map[string]bool{}, eng: e, structs: map[string]*types.Struct{}, structT: map[string]types.Type{}}
	s.decls = append(s.decls,
		"(declare-datatypes ((Iface 0)) (((mk-iface (itag Int) (ival Int)))))",
		"(declare-datatypes ((Slice 0)) (((mk-slice (sarr Int) (soff Int) (slen Int) (scap Int)))))",
		"(declare-sort F64 0)",
		"(declare-sort Unit 0)",
		"(define-fun iface-nil () Iface (mk-iface 0 0))",
		"(define-fun slice-nil () Slice (mk-slice 0 0 0 0))",
	)
	return s
}

func q(s string) string {
	if strings.ContainsAny(s, "|\\") {
		s = strings.NewReplacer("|", "!", "\\", "!").Replace(s)
	}
	return "|" + s + "|"
}

func isDecomposedStruct(t types.Type) bool {
	_, ok := t.Underlying().(*types.Struct)
	if !ok {
		return false
	}
	if n, ok := t.(*types.Named); ok && n.Obj().Pkg() != nil {
		p := n.Obj().Pkg().Path()
		if strings.HasPrefix(p, ModPath) {
			return true
		}
		return false
	}
	return true // anonymous structs
}

// sortOf maps a Go type to an SMT sort name, declaring datatypes on demand.
func (s *sorts) sortOf(t types.Type) string {
	switch u := t.Underlying().(type) {
	case *types.Basic:
		switch {
		case u.Info()&types.IsBoolean != 0:
			return "Bool"
		case u.Info()&types.IsInteger != 0:
			return "Int"
		case u.Info()&types.IsString != 0:
			return "String"
		case u.Info()&types.IsFloat != 0:
			return "F64"
		case u.Kind() == types.UnsafePointer:
			return "Int"
		case u.Kind() == types.UntypedNil:
			return "Int"
		}
		return "Unit"
	case *types.Pointer, *types.Map, *types.Chan, *types.Signature:
		return "Int"
	case *types.Interface:
		return "Iface"
	case *types.Slice:
		return "Slice"
	case *types.Struct:
		if isDecomposedStruct(t) {
			return s.structSort(t, u)
		}
		return s.opaque(t)
	case *types.Array:
		return s.opaque(t)
	case *types.Tuple:
		return "Unit"
	}
	return s.opaque(t)
}

func (s *sorts) opaque(t types.Type) string {
	name := q("O." + typeName(t))
	if !s.declared[name] {
		s.declared[name] = true
		s.decls = append(s.decls, fmt.Sprintf("(declare-sort %s 0)", name))
	}
	return name
}

func (s *sorts) structSort(t types.Type, st *types.Struct) string {
	base := typeName(t)
	name := q("S." + base)
	if s.declared[name] {
		return name
	}
	s.declared[name] = true
	s.structs[name] = st
	s.structT[name] = t
	var fs []string
	for i := 0; i < st.NumFields(); i++ {
		f := st.Field(i)
		fs = append(fs, fmt.Sprintf("(%s %s)", q("f."+base+"."+f.Name()), s.sortOf(f.Type())))
	}
	if len(fs) == 0 {
		s.decls = append(s.decls, fmt.Sprintf("(declare-datatypes ((%s 0)) (((%s))))", name, q("mk."+base)))
	} else {
		s.decls = append(s.decls, fmt.Sprintf("(declare-datatypes ((%s 0)) (((%s %s))))", name, q("mk."+base), strings.Join(fs, " ")))
	}
	return name
}

func (s *sorts) structCtor(t types.Type) string  { return q("mk." + typeName(t)) }
func (s *sorts) structAcc(t types.Type, f string) string { return q("f." + typeName(t) + "." + f) }

// zero value term for a type
func (s *sorts) zero(t types.Type) string {
	switch u := t.Underlying().(type) {
	case *types.Basic:
		switch {
		case u.Info()&types.IsBoolean != 0:
			return "false"
		case u.Info()&types.IsInteger != 0:
			return "0"
		case u.Info()&types.IsString != 0:
			return "\"\""
		case u.Info()&types.IsFloat != 0:
			return s.f64lit("0")
		}
		return "0"
	case *types.Pointer, *types.Map, *types.Chan, *types.Signature:
		return "0"
	case *types.Interface:
		return "iface-nil"
	case *types.Slice:
		return "slice-nil"
	case *types.Struct:
		if isDecomposedStruct(t) {
			s.sortOf(t)
			if u.NumFields() == 0 {
				return s.structCtor(t)
			}
			var a []string
			for i := 0; i < u.NumFields(); i++ {
				a = append(a, s.zero(u.Field(i).Type()))
			}
			return "(" + s.structCtor(t) + " " + strings.Join(a, " ") + ")"
		}
	}
	srt := s.sortOf(t)
	name := q("zero." + typeName(t))
	if !s.declared[name] {
		s.declared[name] = true
		s.decls = append(s.decls, fmt.Sprintf("(declare-const %s %s)", name, srt))
	}
	return name
}

func (s *sorts) f64lit(v string) string {
	name := q("f64." + v)
	if !s.declared[name] {
		s.declared[name] = true
		s.decls = append(s.decls, fmt.Sprintf("(declare-const %s F64)", name))
	}
	return name
}

func intLit(v *big.Int) string {
	if v.Sign() < 0 {
		return "(- " + new(big.Int).Neg(v).String() + ")"
	}
	return v.String()
}

func smtString(s string) string {
	var sb strings.Builder
	sb.WriteByte('"')
	for i := 0; i < len(s); i++ {
		c := s[i]
		switch {
		case c == '"':
			sb.WriteString("\"\"")
		case c == '\\':
			sb.WriteString("\\u{5c}")
		case c >= 32 && c < 127:
			sb.WriteByte(c)
		default:
			fmt.Fprintf(&sb, "\\u{%x}", c)
		}
	}
	sb.WriteByte('"')
	return sb.String()
}

// constTerm renders a Go constant of the given type.
func (s *sorts) constTerm(v constant.Value, t types.Type) string {
	if v == nil {
		return s.zero(t)
	}
	switch u := t.Underlying().(type) {
	case *types.Basic:
		switch {
		case u.Info()&types.IsBoolean != 0:
			if constant.BoolVal(v) {
				return "true"
			}
			return "false"
		case u.Info()&types.IsInteger != 0:
			iv := constant.ToInt(v)
			if b, ok := constant.Val(iv).(*big.Int); ok {
				return intLit(b)
			}
			if i64, ok := constant.Int64Val(iv); ok {
				return intLit(big.NewInt(i64))
			}
			u64, _ := constant.Uint64Val(iv)
			return new(big.Int).SetUint64(u64).String()
		case u.Info()&types.IsString != 0:
			return smtString(constant.StringVal(v))
		case u.Info()&types.IsFloat != 0:
			return s.f64lit(v.ExactString())
		}
	}
	return s.zero(t)
}

// integer range of a basic integer type; ok=false for non-integers
func intRange(t types.Type) (lo, hi *big.Int, ok bool) {
	b, isB := t.Underlying().(*types.Basic)
	if !isB || b.Info()&types.IsInteger == 0 {
		return nil, nil, false
	}
	bits := 64
	unsigned := b.Info()&types.IsUnsigned != 0
	switch b.Kind() {
	case types.Int8, types.Uint8:
		bits = 8
	case types.Int16, types.Uint16:
		bits = 16
	case types.Int32, types.Uint32:
		bits = 32
	}
	one := big.NewInt(1)
	if unsigned {
		hi = new(big.Int).Sub(new(big.Int).Lsh(one, uint(bits)), one)
		return big.NewInt(0), hi, true
	}
	hi = new(big.Int).Sub(new(big.Int).Lsh(one, uint(bits-1)), one)
	lo = new(big.Int).Neg(new(big.Int).Lsh(one, uint(bits-1)))
	return lo, hi, true
}
