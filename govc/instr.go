package govc

import (
	"fmt"
	"go/token"
	"go/types"
	"strings"

	"golang.org/x/tools/go/ssa"
)

// ---- heap access helpers ----

// loadFieldIn reads field idx of the struct of type st located at ref base, in state s.
func (g *vcgen) loadFieldIn(s *State, base string, st types.Type, idx int) string {
	f := st.Underlying().(*types.Struct).Field(idx)
	if _, isS := f.Type().Underlying().(*types.Struct); isS && isDecomposedStruct(f.Type()) {
		return g.loadStructIn(s, g.emb(st, f.Name(), base), f.Type())
	}
	name, ft := g.fieldArr(st, idx)
	term := fmt.Sprintf("(select %s %s)", g.get(s, name), base)
	if s.formal == nil && !strings.Contains(base, "|q.") {
		// the heap is closed under the allocation counter of the same state: an object that exists holds only
		// references to objects that exist
		switch ft.Underlying().(type) {
		case *types.Pointer, *types.Map, *types.Chan, *types.Interface, *types.Slice, *types.Signature:
			g.stateVar("G.alloc", "Int")
			alloc := g.get(s, "G.alloc")
			key := "wf:" + term + "@" + alloc
			if !g.declared[key] {
				g.declared[key] = true
				if f := g.typeFacts(term, ft, alloc); f != "true" {
					g.emit(fmt.Sprintf("(assert (=> (<= %s %s) %s))", base, alloc, f))
				}
			}
		}
	}
	return term
}

// loadStructIn assembles a struct value from the heap.
func (g *vcgen) loadStructIn(s *State, ref string, t types.Type) string {
	st := t.Underlying().(*types.Struct)
	g.s.sortOf(t)
	if st.NumFields() == 0 {
		return g.s.structCtor(t)
	}
	var parts []string
	for i := 0; i < st.NumFields(); i++ {
		parts = append(parts, g.loadFieldIn(s, ref, t, i))
	}
	return "(" + g.s.structCtor(t) + " " + strings.Join(parts, " ") + ")"
}

func (g *vcgen) storeField(base string, st types.Type, idx int, val string) {
	f := st.Underlying().(*types.Struct).Field(idx)
	if _, isS := f.Type().Underlying().(*types.Struct); isS && isDecomposedStruct(f.Type()) {
		g.storeStruct(g.emb(st, f.Name(), base), f.Type(), val)
		return
	}
	name, _ := g.fieldArr(st, idx)
	g.set(name, fmt.Sprintf("(store %s %s %s)", g.get(g.st, name), base, val))
}

func (g *vcgen) storeStruct(ref string, t types.Type, val string) {
	st := t.Underlying().(*types.Struct)
	g.s.sortOf(t)
	for i := 0; i < st.NumFields(); i++ {
		g.storeField(ref, t, i, fmt.Sprintf("(%s %s)", g.s.structAcc(t, st.Field(i).Name()), val))
	}
}

func (g *vcgen) loadPtr(s *State, ref string, elem types.Type) string {
	if _, isS := elem.Underlying().(*types.Struct); isS && isDecomposedStruct(elem) {
		return g.loadStructIn(s, ref, elem)
	}
	return fmt.Sprintf("(select %s %s)", g.get(s, g.ptrArr(elem)), ref)
}

func (g *vcgen) storePtr(ref string, elem types.Type, val string) {
	if _, isS := elem.Underlying().(*types.Struct); isS && isDecomposedStruct(elem) {
		g.storeStruct(ref, elem, val)
		return
	}
	name := g.ptrArr(elem)
	g.set(name, fmt.Sprintf("(store %s %s %s)", g.get(g.st, name), ref, val))
}

// globals: immutable ones are constants, mutable ones are scalar state variables
func (g *vcgen) globalVarName(gl *ssa.Global) string {
	return "GV." + gl.Pkg.Pkg.Path() + "." + gl.Name()
}

func (g *vcgen) loadGlobalIn(gl *ssa.Global, s *State) string {
	elem := gl.Type().Underlying().(*types.Pointer).Elem()
	if !g.eng.mutableGlobals[gl] {
		name := q("GC." + gl.Pkg.Pkg.Path() + "." + gl.Name())
		if !g.declared[name] {
			g.declare(name, g.s.sortOf(elem))
			g.globalFacts(gl, name, elem)
		}
		return name
	}
	vn := g.globalVarName(gl)
	g.stateVar(vn, g.s.sortOf(elem))
	if !g.declared["wit:"+vn] && s.formal == nil {
		g.declared["wit:"+vn] = true
		g.addWitness("old("+gl.Name()+")", g.base(vn))
	}
	return g.get(s, vn)
}

// facts about immutable globals: error sentinels created by errors.New are non-nil and pairwise distinct
func (g *vcgen) globalFacts(gl *ssa.Global, name string, elem types.Type) {
	if g.globalFactsImpl(gl, name, elem) {
		return
	}
	f := g.typeFacts(name, elem, g.base2("G.alloc"))
	if f != "true" {
		g.emit("(assert " + f + ")")
	}
}

func (g *vcgen) base2(name string) string {
	g.stateVar(name, "Int")
	return g.base(name)
}

// boxing of non-pointer dynamic values in interfaces
func (g *vcgen) box(t types.Type, term string) string {
	srt := g.s.sortOf(t)
	tag := strings.Trim(srt, "|")
	bx, ub := q("box."+tag), q("unbox."+tag)
	g.declareFun(bx, []string{srt}, "Int")
	g.declareFun(ub, []string{"Int"}, srt)
	b := fmt.Sprintf("(%s %s)", bx, term)
	g.emit(fmt.Sprintf("(assert (and (= (%s %s) %s) (< %s 0)))", ub, b, term, b))
	return b
}

func (g *vcgen) unbox(t types.Type, ref string) string {
	srt := g.s.sortOf(t)
	tag := strings.Trim(srt, "|")
	bx, ub := q("box."+tag), q("unbox."+tag)
	g.declareFun(bx, []string{srt}, "Int")
	g.declareFun(ub, []string{"Int"}, srt)
	return fmt.Sprintf("(%s %s)", ub, ref)
}

// unboxIface: the value of non-pointer type t held by interface value v. When v does hold a t, its payload is the
// box of that value (boxing is a bijection between the values of a representation and their payloads).
func (g *vcgen) unboxIface(t types.Type, v string) string {
	ref := fmt.Sprintf("(ival %s)", v)
	u := g.unbox(t, ref)
	srt := g.s.sortOf(t)
	bx := q("box." + strings.Trim(srt, "|"))
	key := "unboxfact:" + u + fmt.Sprint(g.eng.TagOf(t))
	if !g.declared[key] && !strings.Contains(v, "|q.") {
		g.declared[key] = true
		g.emit(fmt.Sprintf("(assert (=> (= (itag %s) %d) (= (%s %s) %s)))", v, g.eng.TagOf(t), bx, u, ref))
	}
	return u
}

func isPointerLike(t types.Type) bool {
	switch t.Underlying().(type) {
	case *types.Pointer, *types.Map, *types.Chan, *types.Signature:
		return true
	}
	return false
}

func (g *vcgen) makeIface(t types.Type, term string) string {
	tag := g.eng.TagOf(t)
	if isPointerLike(t) {
		return fmt.Sprintf("(mk-iface %d %s)", tag, term)
	}
	return fmt.Sprintf("(mk-iface %d %s)", tag, g.box(t, term))
}

// nil dereference: obligation when safety is on for this function, otherwise a partial-correctness assumption
func (g *vcgen) nonNil(term, origin string) {
	if g.safety {
		g.oblige("safe/nil", origin, fmt.Sprintf("(not (= %s 0))", term), "dereference of "+origin)
	} else {
		g.assume(fmt.Sprintf("(not (= %s 0))", term))
	}
}

// origin describes the producing expression of a value (stable under renaming of temporaries)
func origin(v ssa.Value) string {
	switch x := v.(type) {
	case *ssa.Parameter:
		return "param " + x.Name()
	case *ssa.FreeVar:
		return "captured " + x.Name()
	case *ssa.UnOp:
		if x.Op == token.MUL {
			return "*" + origin(x.X)
		}
		if x.Op == token.ARROW {
			return "<-" + origin(x.X)
		}
	case *ssa.FieldAddr:
		st := x.X.Type().Underlying().(*types.Pointer).Elem().Underlying().(*types.Struct)
		return origin(x.X) + "." + st.Field(x.Field).Name()
	case *ssa.Extract:
		if c, ok := x.Tuple.(*ssa.Call); ok {
			return fmt.Sprintf("result%d of %s", x.Index, calleeName(c.Common()))
		}
		return fmt.Sprintf("extract%d of %s", x.Index, origin(x.Tuple))
	case *ssa.Call:
		return "result of " + calleeName(x.Common())
	case *ssa.Alloc:
		if x.Comment != "" {
			return "var " + x.Comment
		}
		return "alloc"
	case *ssa.Global:
		return "global " + x.Name()
	case *ssa.Phi:
		if x.Comment != "" {
			return "var " + x.Comment
		}
		return "phi"
	case *ssa.Const:
		return "const " + x.String()
	case *ssa.TypeAssert:
		return origin(x.X) + ".(" + x.AssertedType.String() + ")"
	case *ssa.Lookup:
		return origin(x.X) + "[...]"
	case *ssa.MakeInterface:
		return origin(x.X)
	case *ssa.ChangeInterface:
		return origin(x.X)
	case *ssa.ChangeType:
		return origin(x.X)
	}
	return fmt.Sprintf("%T", v)
}

func calleeName(c *ssa.CallCommon) string {
	if c.IsInvoke() {
		return "(" + types.TypeString(c.Value.Type(), shortQual) + ")." + c.Method.Name()
	}
	if f := c.StaticCallee(); f != nil {
		return shortName(FullName(f))
	}
	if b, ok := c.Value.(*ssa.Builtin); ok {
		return b.Name()
	}
	return "dynamic call"
}

func shortQual(p *types.Package) string { return p.Name() }

// ---- monitor-protected access checks ----

func (g *vcgen) checkProtected(base string, st types.Type, idx int, write bool) {
	mon := g.monitorOfType(st)
	if mon == nil {
		return
	}
	fname := st.Underlying().(*types.Struct).Field(idx).Name()
	for _, p := range mon.Protects {
		if p == fname {
			if g.fc != nil && g.fc.Flags["monitor"] == "unchecked" {
				return
			}
			held := fmt.Sprintf("(select %s %s)", g.get(g.st, g.heldVar(mon)), base)
			if g.isFreshObject(base) {
				return
			}
			g.oblige("monitor/held", mon.Type+"."+fname, held, "access to protected field "+fname+" without holding the lock")
			return
		}
	}
}

// objects allocated by this very function are not shared yet: constructor code may initialise them freely
func (g *vcgen) isFreshObject(base string) bool {
	return g.freshObjs[base]
}

// ---- instruction translation ----

func (g *vcgen) instr(ins ssa.Instruction) {
	switch x := ins.(type) {
	case *ssa.DebugRef:
		return
	case *ssa.Alloc:
		g.alloc(x)
	case *ssa.FieldAddr:
		st := x.X.Type().Underlying().(*types.Pointer).Elem()
		base := g.val(x.X)
		g.nonNil(base, origin(x.X))
		ft := st.Underlying().(*types.Struct).Field(x.Field).Type()
		if _, isS := ft.Underlying().(*types.Struct); isS {
			// address of an embedded struct (decomposed or opaque): a derived reference
			g.vals[x] = g.emb(st, st.Underlying().(*types.Struct).Field(x.Field).Name(), base)
			if !isDecomposedStruct(ft) {
				g.addr[x] = addrInfo{kind: addrField, base: base, styp: st, field: x.Field}
			}
			return
		}
		g.addr[x] = addrInfo{kind: addrField, base: base, styp: st, field: x.Field}
	case *ssa.IndexAddr:
		g.indexAddr(x)
	case *ssa.UnOp:
		g.unop(x)
	case *ssa.Store:
		g.store(x)
	case *ssa.BinOp:
		g.setVal(x, g.binop(x))
	case *ssa.Phi:
		// handled at block entry
	case *ssa.Convert:
		g.convert(x)
	case *ssa.ChangeType:
		g.setVal(x, g.val(x.X))
		if ai, ok := g.addr[x.X]; ok {
			g.addr[x] = ai
		}
	case *ssa.ChangeInterface:
		g.setVal(x, g.val(x.X))
	case *ssa.MakeInterface:
		g.setVal(x, g.makeIface(x.X.Type(), g.val(x.X)))
	case *ssa.TypeAssert:
		g.typeAssert(x)
	case *ssa.Extract:
		if t, ok := g.tup[x.Tuple]; ok && x.Index < len(t) {
			g.setVal(x, t[x.Index])
			return
		}
		g.setValFresh(x)
	case *ssa.Field:
		t := x.X.Type()
		if isDecomposedStruct(t) {
			g.s.sortOf(t)
			g.setVal(x, fmt.Sprintf("(%s %s)", g.s.structAcc(t, t.Underlying().(*types.Struct).Field(x.Field).Name()), g.val(x.X)))
		} else {
			fn := q("fld." + typeName(t) + "." + t.Underlying().(*types.Struct).Field(x.Field).Name())
			g.declareFun(fn, []string{g.s.sortOf(t)}, g.s.sortOf(x.Type()))
			g.setVal(x, fmt.Sprintf("(%s %s)", fn, g.val(x.X)))
		}
	case *ssa.Index:
		if b, ok := x.X.Type().Underlying().(*types.Basic); ok && b.Info()&types.IsString != 0 {
			// s[i] on a string: the byte at i (strings are modelled as sequences of bytes)
			s, i := g.val(x.X), g.val(x.Index)
			if g.safety {
				g.oblige("safe/index", origin(x.X), fmt.Sprintf("(and (<= 0 %s) (< %s (str.len %s)))", i, i, s), "string index in range")
			} else {
				g.assume(fmt.Sprintf("(and (<= 0 %s) (< %s (str.len %s)))", i, i, s))
			}
			g.setVal(x, fmt.Sprintf("(str.to_code (str.at %s %s))", s, i))
			break
		}
		g.setValFresh(x)
	case *ssa.Lookup:
		g.lookup(x)
	case *ssa.MakeMap:
		r := g.newRef()
		mt := x.Type().Underlying().(*types.Map)
		has, _, ln := g.mapArrs(mt)
		ks := g.s.sortOf(mt.Key())
		g.set(has, fmt.Sprintf("(store %s %s ((as const (Array %s Bool)) false))", g.get(g.st, has), r, ks))
		g.set(ln, fmt.Sprintf("(store %s %s 0)", g.get(g.st, ln), r))
		g.setVal(x, r)
		g.freshObjs[g.vals[x]] = true
	case *ssa.MapUpdate:
		g.mapUpdate(x)
	case *ssa.MakeSlice:
		r := g.newRef()
		ln, cp := g.val(x.Len), g.val(x.Cap)
		et := x.Type().Underlying().(*types.Slice).Elem()
		arr := g.elemArr(et)
		g.set(arr, fmt.Sprintf("(store %s %s ((as const (Array Int %s)) %s))", g.get(g.st, arr), r, g.s.sortOf(et), g.s.zero(et)))
		g.setVal(x, fmt.Sprintf("(mk-slice %s 0 %s %s)", r, ln, cp))
	case *ssa.Slice:
		g.sliceOp(x)
	case *ssa.MakeChan:
		r := g.newRef()
		g.setVal(x, r)
		// the capacity the channel was made with: ghost map chancap (contracts: gm(chancap, ch))
		g.stateVar("G.m.chancap", "(Array Int Int)")
		g.set("G.m.chancap", fmt.Sprintf("(store %s %s %s)", g.get(g.st, "G.m.chancap"), r, g.val(x.Size)))
	case *ssa.MakeClosure:
		r := g.newRef()
		g.setVal(x, r)
		g.closures[g.vals[x]] = x
		g.pureClosureAxiom(x)
		g.closureCreated(x)
	case *ssa.Range:
		g.vals[x] = "0" // the iterator itself carries no value; its progress is the ghost visited-set
		if _, ok := x.X.Type().Underlying().(*types.Map); ok {
			mt := x.X.Type().Underlying().(*types.Map)
			vn := "G.visited." + x.Name()
			g.stateVar(vn, fmt.Sprintf("(Array %s Bool)", g.s.sortOf(mt.Key())))
			g.set(vn, fmt.Sprintf("((as const (Array %s Bool)) false)", g.s.sortOf(mt.Key())))
			g.rangeVis[x] = vn
			g.emit(fmt.Sprintf("(assert (= (%s ((as const (Array %s Bool)) false)) 0))", g.cardFun(g.s.sortOf(mt.Key())), g.s.sortOf(mt.Key())))
			// a map with a positive length has a key (skolem witness): len(m) > 0 ==> has(m, w)
			has, _, ln := g.mapArrs(mt)
			mv := g.val(x.X)
			w := g.freshConst("mapkey", g.s.sortOf(mt.Key()))
			g.assume(fmt.Sprintf("(=> (and (not (= %s 0)) (> (select %s %s) 0)) (select (select %s %s) %s))", mv, g.get(g.st, ln), mv, g.get(g.st, has), mv, w))
		}
	case *ssa.Next:
		g.next(x)
	case *ssa.Send:
		g.chanSend(x.Chan, x.X)
	case *ssa.Select:
		g.selectOp(x)
	case *ssa.Call:
		res := g.call(x, x.Common(), false)
		g.bindResults(x, res)
	case *ssa.Go:
		g.goStmt(x)
	case *ssa.Defer:
		g.deferStmt(x)
	case *ssa.RunDefers:
		g.runDefers(x.Block())
	case *ssa.Panic:
		if g.safety {
			g.oblige("safe/unreachable", "panic", "false", "explicit panic")
		}
		g.assume("false")
	case *ssa.Return, *ssa.If, *ssa.Jump:
		// terminators handled by the block driver
	case *ssa.MultiConvert, *ssa.SliceToArrayPointer:
		g.unsupported("%T", ins)
	default:
		g.unsupported("%T", ins)
		if v, ok := ins.(ssa.Value); ok {
			g.setValFresh(v)
		}
	}
}

func (g *vcgen) bindResults(v ssa.Value, res []string) {
	sig, ok := v.Type().(*types.Tuple)
	if ok {
		if len(res) == sig.Len() {
			g.tup[v] = res
			return
		}
		var ts []string
		for i := 0; i < sig.Len(); i++ {
			ts = append(ts, g.freshOfType("r", sig.At(i).Type()))
		}
		g.tup[v] = ts
		return
	}
	if len(res) == 1 {
		g.setVal(v, res[0])
		return
	}
	g.setValFresh(v)
}

func (g *vcgen) newRef() string {
	g.stateVar("G.alloc", "Int")
	a := g.get(g.st, "G.alloc")
	g.set("G.alloc", fmt.Sprintf("(+ %s 1)", a))
	return g.get(g.st, "G.alloc")
}

func (g *vcgen) alloc(x *ssa.Alloc) {
	r := g.newRef()
	g.setVal(x, r)
	name := g.vals[x]
	g.freshObjs[name] = true
	elem := x.Type().Underlying().(*types.Pointer).Elem()
	g.zeroInit(name, elem)
	if stableCell(x, map[ssa.Value]bool{}) {
		g.protectCell(name, elem, true)
	} else if cellIsLocal(x) {
		g.protectCell(name, elem, false)
	}
	if g.sharedCell[x] {
		// contents may be changed by a concurrently running closure: every load returns an arbitrary value
	}
}

func (g *vcgen) zeroInit(ref string, t types.Type) {
	if st, ok := t.Underlying().(*types.Struct); ok {
		for i := 0; i < st.NumFields(); i++ {
			ft := st.Field(i).Type()
			if _, isS := ft.Underlying().(*types.Struct); isS && isDecomposedStruct(ft) {
				g.zeroInit(g.emb(t, st.Field(i).Name(), ref), ft)
				continue
			}
			name, _ := g.fieldArr(t, i)
			g.set(name, fmt.Sprintf("(store %s %s %s)", g.get(g.st, name), ref, g.s.zero(ft)))
		}
		return
	}
	if _, ok := t.Underlying().(*types.Array); ok {
		return
	}
	name := g.ptrArr(t)
	g.set(name, fmt.Sprintf("(store %s %s %s)", g.get(g.st, name), ref, g.s.zero(t)))
}

func (g *vcgen) indexAddr(x *ssa.IndexAddr) {
	idx := g.val(x.Index)
	switch xt := x.X.Type().Underlying().(type) {
	case *types.Slice:
		s := g.val(x.X)
		if g.safety {
			g.oblige("safe/index", origin(x.X), fmt.Sprintf("(and (<= 0 %s) (< %s (slen %s)))", idx, idx, s), "index in range")
		} else {
			g.assume(fmt.Sprintf("(and (<= 0 %s) (< %s (slen %s)))", idx, idx, s))
		}
		g.addr[x] = addrInfo{kind: addrElem, base: fmt.Sprintf("(sarr %s)", s), idx: fmt.Sprintf("(+ (soff %s) %s)", s, idx), elemT: xt.Elem()}
	case *types.Pointer:
		if at, ok := xt.Elem().Underlying().(*types.Array); ok {
			p := g.val(x.X)
			if g.safety {
				g.oblige("safe/index", origin(x.X), fmt.Sprintf("(and (<= 0 %s) (< %s %d))", idx, idx, at.Len()), "index in range")
			}
			g.addr[x] = addrInfo{kind: addrElem, base: p, idx: idx, elemT: at.Elem()}
			return
		}
		g.unsupported("IndexAddr on %s", x.X.Type())
	default:
		g.unsupported("IndexAddr on %s", x.X.Type())
	}
}

func (g *vcgen) unop(x *ssa.UnOp) {
	switch x.Op {
	case token.MUL:
		g.load(x)
	case token.NOT:
		g.setVal(x, fmt.Sprintf("(not %s)", g.val(x.X)))
	case token.SUB:
		if g.s.sortOf(x.Type()) == "Int" {
			g.setVal(x, wrapAddSub(fmt.Sprintf("(- %s)", g.val(x.X)), x.Type()))
		} else {
			g.setValFresh(x)
		}
	case token.ARROW:
		g.chanRecv(x)
	default:
		g.setValFresh(x)
		g.warn("unary operator %s is uninterpreted", x.Op)
	}
}

func (g *vcgen) load(x *ssa.UnOp) {
	elem := x.Type()
	if gl, ok := x.X.(*ssa.Global); ok {
		g.globalLockCheck(gl, "read")
		if _, isS := elem.Underlying().(*types.Struct); isS && isDecomposedStruct(elem) {
			g.setVal(x, g.loadStructIn(g.st, g.globalAddr(gl), elem))
			return
		}
		g.setVal(x, g.loadGlobalIn(gl, g.st))
		g.assumeType(g.vals[x], elem)
		return
	}
	if ai, ok := g.addr[x.X]; ok {
		switch ai.kind {
		case addrField:
			g.checkProtected(ai.base, ai.styp, ai.field, false)
			if g.isRacyField(ai.styp, ai.field) {
				g.setValFresh(x)
				return
			}
			g.setVal(x, g.loadFieldIn(g.st, ai.base, ai.styp, ai.field))
			if name, _ := g.fieldArr(ai.styp, ai.field); !g.isFreshObject(ai.base) {
				if _, modified := g.st.m[name]; !modified {
					if f := g.typeFacts(g.vals[x], elem, g.base("G.alloc")); f != "true" {
						g.assume(f)
					}
				}
			}
			g.assumeType(g.vals[x], elem)
			return
		case addrElem:
			arr := g.elemArr(ai.elemT)
			g.setVal(x, fmt.Sprintf("(select (select %s %s) %s)", g.get(g.st, arr), ai.base, ai.idx))
			if _, modified := g.st.m[arr]; !modified {
				// the array still has its entry contents: references in it existed at entry
				if f := g.typeFacts(g.vals[x], elem, g.base("G.alloc")); f != "true" {
					g.assume(f)
				}
			}
			g.assumeType(g.vals[x], elem)
			return
		}
	}
	p := g.val(x.X)
	if al, ok := x.X.(*ssa.Alloc); ok && g.sharedCell[al] {
		started := false
		for _, goIns := range g.sharedSince[al] {
			if mayPrecede(goIns, x) {
				started = true
			}
		}
		if started {
			g.setValFresh(x) // a goroutine that writes this variable may already be running
			return
		}
	}
	_, isAlloc := x.X.(*ssa.Alloc)
	_, isCell := x.X.(*ssa.FreeVar)
	if !isAlloc && !isCell {
		g.nonNil(p, origin(x.X))
	}
	g.setVal(x, g.loadPtr(g.st, p, elem))
	g.assumeType(g.vals[x], elem)
}

func (g *vcgen) store(x *ssa.Store) {
	v := g.val(x.Val)
	elem := x.Val.Type()
	if gl, ok := x.Addr.(*ssa.Global); ok {
		g.globalLockCheck(gl, "write")
		if _, isS := elem.Underlying().(*types.Struct); isS && isDecomposedStruct(elem) {
			g.storeStruct(g.globalAddr(gl), elem, v)
			return
		}
		vn := g.globalVarName(gl)
		g.stateVar(vn, g.s.sortOf(elem))
		g.set(vn, v)
		g.frameCheckVar(vn, "global "+gl.Name())
		return
	}
	if ai, ok := g.addr[x.Addr]; ok {
		switch ai.kind {
		case addrField:
			g.checkProtected(ai.base, ai.styp, ai.field, true)
			g.frameCheckField(ai.base, ai.styp, ai.field)
			g.storeField(ai.base, ai.styp, ai.field, v)
			return
		case addrElem:
			arr := g.elemArr(ai.elemT)
			cur := g.get(g.st, arr)
			g.set(arr, fmt.Sprintf("(store %s %s (store (select %s %s) %s %s))", cur, ai.base, cur, ai.base, ai.idx, v))
			return
		}
	}
	if fa, ok := x.Addr.(*ssa.FieldAddr); ok {
		// a whole struct assigned to a struct-typed field (s.meta = T{}): the field address is a derived reference and
		// has no addr entry; the store is a write to that field like any other (frame and monitor checks)
		st := fa.X.Type().Underlying().(*types.Pointer).Elem()
		if sst, isSt := st.Underlying().(*types.Struct); isSt {
			ft := sst.Field(fa.Field).Type()
			if _, isS := ft.Underlying().(*types.Struct); isS && isDecomposedStruct(ft) {
				g.checkProtected(g.val(fa.X), st, fa.Field, true)
				g.frameCheckField(g.val(fa.X), st, fa.Field)
			}
		}
	}
	p := g.val(x.Addr)
	_, isAlloc := x.Addr.(*ssa.Alloc)
	_, isCell := x.Addr.(*ssa.FreeVar)
	if !isAlloc && !isCell {
		g.nonNil(p, origin(x.Addr))
	}
	g.storePtr(p, elem, v)
}

func (g *vcgen) convert(x *ssa.Convert) {
	from, to := x.X.Type(), x.Type()
	fs, ts := g.s.sortOf(from), g.s.sortOf(to)
	v := g.val(x.X)
	switch {
	case fs == "Int" && ts == "Int":
		if isPointerLike(from) || isPointerLike(to) {
			g.setVal(x, v)
			return
		}
		flo, fhi, ok1 := intRange(from)
		tlo, thi, ok2 := intRange(to)
		if ok1 && ok2 && flo.Cmp(tlo) >= 0 && fhi.Cmp(thi) <= 0 {
			g.setVal(x, v)
		} else {
			g.setVal(x, wrapTerm(v, to))
		}
	case fs == "String" && ts == "String":
		g.setVal(x, v)
	case fs == "String" && ts == "Slice" && !isByteSlice(to):
		// []rune(s): one element per code point: between len/4 (rounded up) and len elements; contents abstract
		r := g.newRef()
		n := g.freshConst("runes", "Int")
		g.assume(fmt.Sprintf("(and (<= 0 %s) (<= %s (str.len %s)) (<= (str.len %s) (* 4 %s)))", n, n, v, v, n))
		g.setVal(x, fmt.Sprintf("(mk-slice %s 0 %s %s)", r, n, n))
		g.havocVar(g.elemArr(to.Underlying().(*types.Slice).Elem()))
		g.warn("[]rune(string) conversion: contents are abstract (the length is the number of code points: between len/4 and len)")
	case fs == "Slice" && ts == "String" && !isByteSlice(from):
		// string([]rune): each code point takes 1 to 4 bytes; contents abstract
		res := g.freshConst("runestr", "String")
		g.assume(fmt.Sprintf("(and (<= (slen %s) (str.len %s)) (<= (str.len %s) (* 4 (slen %s))))", v, res, res, v))
		g.setVal(x, res)
		g.warn("string([]rune) conversion: contents are abstract (the length is between the number of runes and four times that)")
	case fs == "String" && ts == "Slice":
		// []byte(s): fresh slice whose length is the string's length; contents tied by bytes.of
		r := g.newRef()
		g.setVal(x, fmt.Sprintf("(mk-slice %s 0 (str.len %s) (str.len %s))", r, v, v))
		g.declareFun("str.ofbytes", []string{"Slice", "(Array Int (Array Int Int))"}, "String")
		arr := g.elemArr(types.Typ[types.Byte])
		g.havocVar(arr)
		g.assume(fmt.Sprintf("(= (str.ofbytes %s %s) %s)", g.vals[x], g.get(g.st, arr), v))
		g.warn("[]byte(string) conversion: contents are abstract (only length and round-trip are modelled)")
	case fs == "Slice" && ts == "String":
		g.declareFun("str.ofbytes", []string{"Slice", "(Array Int (Array Int Int))"}, "String")
		arr := g.elemArr(types.Typ[types.Byte])
		t := fmt.Sprintf("(str.ofbytes %s %s)", v, g.get(g.st, arr))
		g.setVal(x, t)
		g.assume(fmt.Sprintf("(= (str.len %s) (slen %s))", g.vals[x], v))
	case fs == "Int" && ts == "String":
		g.setValFresh(x)
	default:
		fn := q("conv." + strings.Trim(fs, "|") + "." + strings.Trim(ts, "|") + "." + typeName(to))
		g.declareFun(fn, []string{fs}, ts)
		g.setVal(x, fmt.Sprintf("(%s %s)", fn, v))
		g.assumeType(g.vals[x], to)
	}
}

func isByteSlice(t types.Type) bool {
	st, ok := t.Underlying().(*types.Slice)
	if !ok {
		return false
	}
	b, ok := st.Elem().Underlying().(*types.Basic)
	return ok && (b.Kind() == types.Uint8 || b.Kind() == types.Byte)
}

func (g *vcgen) typeAssert(x *ssa.TypeAssert) {
	v := g.val(x.X)
	at := x.AssertedType
	var okT, valT string
	if _, isIface := at.Underlying().(*types.Interface); isIface {
		// assertion to an interface type: succeeds iff the dynamic type implements it
		impls := g.eng.Implementers(at.Underlying().(*types.Interface), typeName(at))
		okc := g.freshConst("assertok", "Bool")
		g.assume(fmt.Sprintf("(=> %s (not (= (itag %s) 0)))", okc, v))
		var isImpl []string
		for _, t := range impls {
			isImpl = append(isImpl, fmt.Sprintf("(= (itag %s) %d)", v, g.eng.TagOf(t)))
		}
		if len(isImpl) > 0 {
			g.assume(fmt.Sprintf("(=> (or %s) %s)", strings.Join(isImpl, " "), okc))
		}
		okT, valT = okc, fmt.Sprintf("(ite %s %s iface-nil)", okc, v)
	} else {
		okT = fmt.Sprintf("(= (itag %s) %d)", v, g.eng.TagOf(at))
		if isPointerLike(at) {
			valT = fmt.Sprintf("(ite %s (ival %s) 0)", okT, v)
		} else {
			valT = g.unboxIface(at, v)
		}
	}
	if x.CommaOk {
		g.tup[x] = []string{g.define("ta", g.s.sortOf(at), valT), g.define("taok", "Bool", okT)}
		return
	}
	if g.safety {
		g.oblige("safe/typeassert", origin(x.X), okT, "type assertion to "+at.String())
	} else {
		g.assume(okT)
	}
	g.setVal(x, valT)
}

func (g *vcgen) lookup(x *ssa.Lookup) {
	switch xt := x.X.Type().Underlying().(type) {
	case *types.Map:
		m, k := g.val(x.X), g.val(x.Index)
		has, val, _ := g.mapArrs(xt)
		// reading a nil map yields the zero value
		h := fmt.Sprintf("(and (not (= %s 0)) (select (select %s %s) %s))", m, g.get(g.st, has), m, k)
		v := fmt.Sprintf("(ite %s (select (select %s %s) %s) %s)", h, g.get(g.st, val), m, k, g.s.zero(xt.Elem()))
		if x.CommaOk {
			vv := g.define("lk", g.s.sortOf(xt.Elem()), v)
			g.assumeType(vv, xt.Elem())
			g.tup[x] = []string{vv, g.define("lkok", "Bool", h)}
			return
		}
		g.setVal(x, v)
		g.assumeType(g.vals[x], xt.Elem())
	case *types.Basic: // string index
		s, i := g.val(x.X), g.val(x.Index)
		if g.safety {
			g.oblige("safe/index", origin(x.X), fmt.Sprintf("(and (<= 0 %s) (< %s (str.len %s)))", i, i, s), "string index in range")
		} else {
			g.assume(fmt.Sprintf("(and (<= 0 %s) (< %s (str.len %s)))", i, i, s))
		}
		g.setVal(x, fmt.Sprintf("(str.to_code (str.at %s %s))", s, i))
	default:
		g.setValFresh(x)
	}
}

func (g *vcgen) mapUpdate(x *ssa.MapUpdate) {
	mt := x.Map.Type().Underlying().(*types.Map)
	m, k, v := g.val(x.Map), g.val(x.Key), g.val(x.Value)
	if g.safety {
		g.oblige("safe/nil", "map "+origin(x.Map), fmt.Sprintf("(not (= %s 0))", m), "assignment to entry in nil map")
	} else {
		g.assume(fmt.Sprintf("(not (= %s 0))", m))
	}
	g.frameCheckMap(m, x.Map)
	has, val, ln := g.mapArrs(mt)
	ch, cv, cl := g.get(g.st, has), g.get(g.st, val), g.get(g.st, ln)
	g.set(ln, fmt.Sprintf("(store %s %s (ite (select (select %s %s) %s) (select %s %s) (+ (select %s %s) 1)))", cl, m, ch, m, k, cl, m, cl, m))
	g.set(has, fmt.Sprintf("(store %s %s (store (select %s %s) %s true))", ch, m, ch, m, k))
	g.set(val, fmt.Sprintf("(store %s %s (store (select %s %s) %s %s))", cv, m, cv, m, k, v))
}

func (g *vcgen) sliceOp(x *ssa.Slice) {
	v := g.val(x.X)
	lo := "0"
	if x.Low != nil {
		lo = g.val(x.Low)
	}
	switch xt := x.X.Type().Underlying().(type) {
	case *types.Slice:
		hi := fmt.Sprintf("(slen %s)", v)
		if x.High != nil {
			hi = g.val(x.High)
		}
		cond := fmt.Sprintf("(and (<= 0 %s) (<= %s %s) (<= %s (scap %s)))", lo, lo, hi, hi, v)
		if g.safety {
			g.oblige("safe/index", "slice "+origin(x.X), cond, "slice bounds in range")
		} else {
			g.assume(cond)
		}
		g.setVal(x, fmt.Sprintf("(mk-slice (sarr %s) (+ (soff %s) %s) (- %s %s) (- (scap %s) %s))", v, v, lo, hi, lo, v, lo))
	case *types.Basic:
		hi := fmt.Sprintf("(str.len %s)", v)
		if x.High != nil {
			hi = g.val(x.High)
		}
		cond := fmt.Sprintf("(and (<= 0 %s) (<= %s %s) (<= %s (str.len %s)))", lo, lo, hi, hi, v)
		if g.safety {
			g.oblige("safe/index", "slice "+origin(x.X), cond, "string slice bounds in range")
		} else {
			g.assume(cond)
		}
		g.setVal(x, fmt.Sprintf("(str.substr %s %s (- %s %s))", v, lo, hi, lo))
	case *types.Pointer:
		// slicing an array through its pointer
		at, ok := xt.Elem().Underlying().(*types.Array)
		if !ok {
			g.setValFresh(x)
			return
		}
		hi := fmt.Sprint(at.Len())
		if x.High != nil {
			hi = g.val(x.High)
		}
		g.setVal(x, fmt.Sprintf("(mk-slice %s %s (- %s %s) (- %d %s))", v, lo, hi, lo, at.Len(), lo))
	default:
		g.setValFresh(x)
	}
}

func (g *vcgen) next(x *ssa.Next) {
	if x.IsString {
		g.tup[x] = []string{g.freshConst("ok", "Bool"), g.freshConst("i", "Int"), g.freshConst("r", "Int")}
		return
	}
	rng, ok := x.Iter.(*ssa.Range)
	if !ok {
		g.setValFresh(x)
		return
	}
	mt := rng.X.Type().Underlying().(*types.Map)
	m := g.val(rng.X)
	has, val, _ := g.mapArrs(mt)
	vn := g.rangeVis[rng]
	if vn == "" {
		vn = "G.visited." + rng.Name()
		g.stateVar(vn, fmt.Sprintf("(Array %s Bool)", g.s.sortOf(mt.Key())))
	}
	okc := g.freshConst("rng.ok", "Bool")
	k := g.freshConst("rng.k", g.s.sortOf(mt.Key()))
	vis := g.get(g.st, vn)
	hasM := fmt.Sprintf("(select %s %s)", g.get(g.st, has), m)
	g.assume(fmt.Sprintf("(=> %s (and (select %s %s) (not (select %s %s))))", okc, hasM, k, vis, k))
	ks := g.s.sortOf(mt.Key())
	g.assume(fmt.Sprintf("(=> (not %s) (forall ((k!r %s)) (=> (select %s k!r) (select %s k!r))))", okc, ks, hasM, vis))
	g.assume(fmt.Sprintf("(=> (= %s 0) (not %s))", m, okc))
	v := g.define("rng.v", g.s.sortOf(mt.Elem()), fmt.Sprintf("(select (select %s %s) %s)", g.get(g.st, val), m, k))
	g.assumeType(v, mt.Elem())
	g.assumeType(k, mt.Key())
	g.set(vn, fmt.Sprintf("(ite %s (store %s %s true) %s)", okc, vis, k, vis))
	// the number of visited keys: grows by one per iteration, never exceeds the length, equals it when the range ends
	// (the map is not modified while it is being ranged over: an assumption of the visited-set model)
	card := g.cardFun(ks)
	_, _, lnArr := g.mapArrs(mt)
	lenM := fmt.Sprintf("(ite (= %s 0) 0 (select %s %s))", m, g.get(g.st, lnArr), m)
	if g.updatesMapOfType(mt) {
		// the function itself inserts into or deletes from a map of this type: no claim about the count
		g.assume(fmt.Sprintf("(>= (%s %s) 0)", card, vis))
	} else {
		g.noteAssumption("map range in " + g.u.Name + ": the map is not changed by other code while it is ranged over (visited-set model)")
		g.assume(fmt.Sprintf("(and (>= (%s %s) 0) (=> %s (and (= (%s (store %s %s true)) (+ (%s %s) 1)) (<= (+ (%s %s) 1) %s))) (=> (not %s) (= (%s %s) %s)))",
			card, vis, okc, card, vis, k, card, vis, card, vis, lenM, okc, card, vis, lenM))
	}
	g.tup[x] = []string{okc, k, v}
	g.curRange = &rangeState{rng: rng, ok: okc, k: k, v: v, m: m, mt: mt}
}

// cellIsLocal: an Alloc of a non-struct variable that is only loaded, stored or captured by closures which this
// function itself calls, defers or starts (never passed on or stored as a value)
func cellIsLocal(a *ssa.Alloc) bool {
	if _, isS := a.Type().Underlying().(*types.Pointer).Elem().Underlying().(*types.Struct); isS {
		return false
	}
	for _, ref := range *a.Referrers() {
		switch r := ref.(type) {
		case *ssa.UnOp, *ssa.DebugRef:
		case *ssa.Store:
			if r.Val == a {
				return false
			}
		case *ssa.MakeClosure:
			for _, use := range *r.Referrers() {
				switch u := use.(type) {
				case *ssa.Defer:
					if u.Call.Value != r {
						return false
					}
				case *ssa.Go:
					if u.Call.Value != r {
						return false
					}
				case *ssa.Call:
					if u.Call.Value != r {
						return false
					}
				case *ssa.DebugRef:
				default:
					return false
				}
			}
		default:
			return false
		}
	}
	return true
}

// stableCaptured: the captured variable behind free variable number idx of closure fn is assigned exactly once
// (before it is captured) and is never written again by the enclosing functions or by any closure that captures it.
// Nobody else can hold its address, so its content is fixed while fn runs.
func (g *vcgen) updatesMapOfType(mt *types.Map) bool {
	for _, b := range g.fn.Blocks {
		for _, ins := range b.Instrs {
			switch x := ins.(type) {
			case *ssa.MapUpdate:
				if types.Identical(x.Map.Type().Underlying(), mt) {
					return true
				}
			case *ssa.Call:
				if bi, ok := x.Call.Value.(*ssa.Builtin); ok && (bi.Name() == "delete" || bi.Name() == "clear") && len(x.Call.Args) > 0 && types.Identical(x.Call.Args[0].Type().Underlying(), mt) {
					return true
				}
			}
		}
	}
	return false
}

// capturedCell: free variable idx of fn is a variable of the enclosing function captured by reference (or a free
// variable of the enclosing function that is one)
func capturedCell(fn *ssa.Function, idx int) bool {
	parent := fn.Parent()
	if parent == nil {
		return false
	}
	for _, b := range parent.Blocks {
		for _, ins := range b.Instrs {
			mc, ok := ins.(*ssa.MakeClosure)
			if !ok || mc.Fn != fn || idx >= len(mc.Bindings) {
				continue
			}
			switch x := mc.Bindings[idx].(type) {
			case *ssa.Alloc:
				return true
			case *ssa.FreeVar:
				for j, pfv := range parent.FreeVars {
					if pfv == x {
						return capturedCell(parent, j)
					}
				}
			}
			return false
		}
	}
	return false
}

func stableCaptured(fn *ssa.Function, idx int) bool {
	parent := fn.Parent()
	if parent == nil {
		return false
	}
	for _, b := range parent.Blocks {
		for _, ins := range b.Instrs {
			mc, ok := ins.(*ssa.MakeClosure)
			if !ok || mc.Fn != fn || idx >= len(mc.Bindings) {
				continue
			}
			return stableCell(mc.Bindings[idx], map[ssa.Value]bool{})
		}
	}
	return false
}

func stableCell(cell ssa.Value, seen map[ssa.Value]bool) bool {
	if seen[cell] {
		return true
	}
	seen[cell] = true
	switch c := cell.(type) {
	case *ssa.Alloc:
		stores := 0
		for _, ref := range *c.Referrers() {
			switch r := ref.(type) {
			case *ssa.UnOp, *ssa.DebugRef:
			case *ssa.FieldAddr:
				if !onlyLoadedFrom(r) {
					return false
				}
			case *ssa.Store:
				if r.Val == c || r.Addr != c {
					return false
				}
				stores++
			case *ssa.MakeClosure:
				cf, ok := r.Fn.(*ssa.Function)
				if !ok {
					return false
				}
				for i, bnd := range r.Bindings {
					if bnd == c && !freeVarReadOnly(cf, i, seen) {
						return false
					}
				}
				if startedAsGoroutine(r) {
					// the goroutine runs concurrently with whatever the spawner does after the go statement:
					// the variable is stable only if it is never assigned after the closure was created
					for _, ref2 := range *c.Referrers() {
						if st, isStore := ref2.(*ssa.Store); isStore && mayPrecede(r, st) {
							return false
						}
					}
				}
			default:
				return false
			}
		}
		return stores <= 1
	case *ssa.FreeVar:
		p := c.Parent()
		for i, fv := range p.FreeVars {
			if fv == c {
				return freeVarReadOnly(p, i, seen) && stableCaptured(p, i)
			}
		}
	}
	return false
}

// freeVarReadOnly: closure fn only reads free variable idx (or hands it on to closures that only read it)
func freeVarReadOnly(fn *ssa.Function, idx int, seen map[ssa.Value]bool) bool {
	if idx >= len(fn.FreeVars) {
		return false
	}
	fv := fn.FreeVars[idx]
	if fv.Referrers() == nil {
		return true
	}
	for _, ref := range *fv.Referrers() {
		switch r := ref.(type) {
		case *ssa.UnOp, *ssa.DebugRef:
		case *ssa.FieldAddr:
			if !onlyLoadedFrom(r) {
				return false
			}
		case *ssa.MakeClosure:
			cf, ok := r.Fn.(*ssa.Function)
			if !ok {
				return false
			}
			for i, bnd := range r.Bindings {
				if bnd == fv && !freeVarReadOnly(cf, i, seen) {
					return false
				}
			}
		default:
			return false
		}
	}
	return true
}

func startedAsGoroutine(mc *ssa.MakeClosure) bool {
	if mc.Referrers() == nil {
		return false
	}
	for _, u := range *mc.Referrers() {
		if _, isGo := u.(*ssa.Go); isGo {
			return true
		}
	}
	return false
}

// protectCell registers a variable cell that no callee can write: scalar cells by address in the P.<sort> array,
// struct cells field by field in the heap arrays of their type
func (g *vcgen) protectCell(cell string, elem types.Type, stable bool) {
	if stable {
		if g.stableCells == nil {
			g.stableCells = map[string]bool{}
		}
		g.stableCells[cell] = true
	}
	if st, isS := elem.Underlying().(*types.Struct); isS && isDecomposedStruct(elem) {
		if g.localFields == nil {
			g.localFields = map[string][]string{}
		}
		for i := 0; i < st.NumFields(); i++ {
			ft := st.Field(i).Type()
			if _, nested := ft.Underlying().(*types.Struct); nested && isDecomposedStruct(ft) {
				g.protectCell(g.emb(elem, st.Field(i).Name(), cell), ft, stable)
				continue
			}
			n, _ := g.fieldArr(elem, i)
			g.localFields[n] = append(g.localFields[n], cell)
		}
		return
	}
	g.localCells = append(g.localCells, cell)
}

// onlyLoadedFrom: the field address is only ever dereferenced for reading (never stored through, never passed on)
func onlyLoadedFrom(fa *ssa.FieldAddr) bool {
	if fa.Referrers() == nil {
		return true
	}
	for _, ref := range *fa.Referrers() {
		switch r := ref.(type) {
		case *ssa.DebugRef:
		case *ssa.UnOp:
			if r.Op != token.MUL {
				return false
			}
		case *ssa.FieldAddr:
			if !onlyLoadedFrom(r) {
				return false
			}
		default:
			return false
		}
	}
	return true
}
