package govc

import (
	"go/token"

	"golang.org/x/tools/go/ssa"
)

// A goroutine started from a closure shares the variables it captures by reference with the function that started it.
// If that function assigns such a variable again after the go statement (a loop variable declared outside the loop is the
// usual way) while the goroutine reads it, the goroutine sees whichever value was assigned last: a data race, and not the
// value "its" iteration had. Nothing a contract of the closure says about the variable can be relied on then, so the
// spawner gets an obligation that fails: <fn>/race(go <closure>: <variable>).

// SpawnRace describes one such pair.
type SpawnRace struct {
	Spawner *ssa.Function
	Closure *ssa.Function
	Var     string
	Store   *ssa.Store
	Go      *ssa.Go
}

// spawnRaces: the captured variables of the closure started by x that the closure reads and the spawner may assign after x
func spawnRaces(x *ssa.Go) []SpawnRace {
	mc, ok := x.Call.Value.(*ssa.MakeClosure)
	if !ok {
		return nil
	}
	fn, ok := mc.Fn.(*ssa.Function)
	if !ok {
		return nil
	}
	var out []SpawnRace
	for i, b := range mc.Bindings {
		cell, ok := b.(*ssa.Alloc)
		if !ok || i >= len(fn.FreeVars) || cell.Referrers() == nil {
			continue
		}
		if !closureLoads(fn, i, map[*ssa.Function]bool{}) {
			continue
		}
		for _, ref := range *cell.Referrers() {
			st, isStore := ref.(*ssa.Store)
			if !isStore || st.Addr != cell {
				continue
			}
			if mayPrecedeAvoiding(x, st, cell) {
				name := cell.Comment
				if name == "" {
					name = fn.FreeVars[i].Name()
				}
				out = append(out, SpawnRace{Spawner: x.Parent(), Closure: fn, Var: name, Store: st, Go: x})
				break
			}
		}
	}
	return out
}

// closureLoads: closure fn (or a closure it creates) loads the content of its free variable idx
func closureLoads(fn *ssa.Function, idx int, seen map[*ssa.Function]bool) bool {
	if seen[fn] || idx >= len(fn.FreeVars) {
		return false
	}
	seen[fn] = true
	fv := fn.FreeVars[idx]
	if fv.Referrers() == nil {
		return false
	}
	for _, ref := range *fv.Referrers() {
		switch r := ref.(type) {
		case *ssa.UnOp:
			if r.Op == token.MUL {
				return true
			}
		case *ssa.FieldAddr, *ssa.IndexAddr:
			return true
		case *ssa.MakeClosure:
			if cf, ok := r.Fn.(*ssa.Function); ok {
				for i, bnd := range r.Bindings {
					if bnd == fv && closureLoads(cf, i, seen) {
						return true
					}
				}
			}
		}
	}
	return false
}

// AllSpawnRaces scans every function of the module (development aid: govc races)
func (e *Engine) AllSpawnRaces() []SpawnRace {
	var out []SpawnRace
	for _, fn := range e.AllFuncs {
		if fn.Blocks == nil || !e.InModule(fn) {
			continue
		}
		for _, b := range fn.Blocks {
			for _, ins := range b.Instrs {
				if g, ok := ins.(*ssa.Go); ok {
					out = append(out, spawnRaces(g)...)
				}
			}
		}
	}
	return out
}

// mayPrecedeAvoiding: b may execute after a on a path that does not execute instruction avoid in between (a variable
// declared inside a loop body is a new variable in every iteration: its allocation lies on every path around the loop)
func mayPrecedeAvoiding(a, b, avoid ssa.Instruction) bool {
	idx := func(blk *ssa.BasicBlock, x ssa.Instruction) int {
		for i, in := range blk.Instrs {
			if in == x {
				return i
			}
		}
		return -1
	}
	// scan block blk from instruction index from: found b / blocked by avoid / fell through
	scan := func(blk *ssa.BasicBlock, from int) (found, blocked bool) {
		for i := from; i < len(blk.Instrs); i++ {
			if blk.Instrs[i] == b {
				return true, false
			}
			if blk.Instrs[i] == avoid {
				return false, true
			}
		}
		return false, false
	}
	ab := a.Block()
	found, blocked := scan(ab, idx(ab, a)+1)
	if found {
		return true
	}
	if blocked {
		return false
	}
	seen := map[*ssa.BasicBlock]bool{}
	stack := append([]*ssa.BasicBlock{}, ab.Succs...)
	for len(stack) > 0 {
		n := stack[len(stack)-1]
		stack = stack[:len(stack)-1]
		if seen[n] {
			continue
		}
		seen[n] = true
		found, blocked := scan(n, 0)
		if found {
			return true
		}
		if blocked {
			continue
		}
		stack = append(stack, n.Succs...)
	}
	return false
}
