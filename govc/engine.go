package govc

import (
	"fmt"
	"go/types"
	"os"
	"sort"
	"strings"

	"golang.org/x/tools/go/packages"
	"golang.org/x/tools/go/ssa"
	"golang.org/x/tools/go/ssa/ssautil"
)

const ModPath = "go.amzn.com"

type Engine struct {
	Prog     *ssa.Program
	Pkgs     []*packages.Package
	AllPkgs  map[string]*packages.Package
	DB       *ContractDB
	Funcs    map[string]*ssa.Function // full name -> function (pkgpath.RelString)
	AllFuncs []*ssa.Function
	eventSigs map[string]*eventSig
	closable  map[string]bool // channels closed somewhere in the program
	ForceSafety bool // prove panic-freedom in every unit (property-level option)
	NotAssumed  map[string]bool // obligation names of recorded findings: such a postcondition does not hold, so callers must not assume it
	CurProp     string // the property being checked: a postcondition labelled "Cxx: ..." is an obligation of that property's check only
	sinceCache  map[[2]string]bool
	wantSpawn bool // eventsFor matches 'go' events instead of call/ret events
	fieldTargets    map[string][]*ssa.Function
	fieldTargetsBad map[string]bool
	RepoDir  string

	mutableGlobals map[*ssa.Global]bool
	tagOf          map[string]int
	tagNames       []string
	effects        map[*ssa.Function]*Effects
	implCache      map[string][]types.Type
	storeSites     map[string][]*ssa.Function // "T.f" -> functions storing to it
	LoadSeconds    float64
	ginits         map[*ssa.Global]*globalInit
	eventEff       map[*ssa.Function]*eventSet
	pkgHint        string           // package of the contract whose targets are being resolved without a function
	sigHint        *types.Signature // signature of the function value whose assumed contract is being resolved
}

func FullName(f *ssa.Function) string {
	if f.Pkg != nil {
		return f.Pkg.Pkg.Path() + "." + f.RelString(f.Pkg.Pkg)
	}
	if p := f.Parent(); p != nil {
		return FullName(p) + "$?" // should not happen: closures have Pkg
	}
	// methods of types from other packages / synthetic
	if recv := f.Signature.Recv(); recv != nil {
		t := recv.Type()
		ptr := ""
		if pt, ok := t.(*types.Pointer); ok {
			t = pt.Elem()
			ptr = "*"
		}
		if n, ok := t.(*types.Named); ok && n.Obj().Pkg() != nil {
			return n.Obj().Pkg().Path() + ".(" + ptr + n.Obj().Name() + ")." + f.Name()
		}
	}
	return f.String()
}

// Load type-checks the repository's current working tree (tag verif on) and builds SSA.
func Load(repoDir string, patterns []string) (*Engine, error) {
	cfg := &packages.Config{Mode: packages.LoadAllSyntax, Dir: repoDir, BuildFlags: []string{"-tags=verif"}, Tests: false,
		Env: append(os.Environ(), "GOFLAGS=-mod=mod", "GOPROXY=off", "GOSUMDB=off", "GOTOOLCHAIN=local")}
	pkgs, err := packages.Load(cfg, patterns...)
	if err != nil {
		return nil, err
	}
	nerr := 0
	packages.Visit(pkgs, nil, func(p *packages.Package) {
		for _, e := range p.Errors {
			fmt.Fprintf(os.Stderr, "load error: %v\n", e)
			nerr++
		}
	})
	if nerr > 0 {
		return nil, fmt.Errorf("%d package errors: the tree does not type-check", nerr)
	}
	prog, _ := ssautil.AllPackages(pkgs, ssa.GlobalDebug)
	prog.Build()
	e := &Engine{Prog: prog, Pkgs: pkgs, Funcs: map[string]*ssa.Function{}, RepoDir: repoDir,
		AllPkgs: map[string]*packages.Package{}, tagOf: map[string]int{}, effects: map[*ssa.Function]*Effects{}, implCache: map[string][]types.Type{},
		mutableGlobals: map[*ssa.Global]bool{}, storeSites: map[string][]*ssa.Function{}}
	packages.Visit(pkgs, nil, func(p *packages.Package) { e.AllPkgs[p.PkgPath] = p })
	for f := range ssautil.AllFunctions(prog) {
		if f.Blocks == nil {
			continue
		}
		e.AllFuncs = append(e.AllFuncs, f)
		if f.Pkg == nil {
			continue
		}
		e.Funcs[FullName(f)] = f
	}
	sort.Slice(e.AllFuncs, func(i, j int) bool { return e.AllFuncs[i].String() < e.AllFuncs[j].String() })
	e.scanGlobals()
	return e, nil
}

func (e *Engine) InModule(f *ssa.Function) bool {
	if f == nil {
		return false
	}
	for f.Parent() != nil {
		f = f.Parent()
	}
	if f.Pkg == nil {
		if recv := f.Signature.Recv(); recv != nil {
			if n := namedOf(recv.Type()); n != nil && n.Obj().Pkg() != nil {
				return strings.HasPrefix(n.Obj().Pkg().Path(), ModPath)
			}
		}
		return false
	}
	return strings.HasPrefix(f.Pkg.Pkg.Path(), ModPath)
}

func namedOf(t types.Type) *types.Named {
	if p, ok := t.(*types.Pointer); ok {
		t = p.Elem()
	}
	n, _ := t.(*types.Named)
	return n
}

// scanGlobals finds globals that are stored to (outside package initialisers) or whose address escapes.
func (e *Engine) scanGlobals() {
	for _, f := range e.AllFuncs {
		isInit := f.Name() == "init" && f.Parent() == nil
		for _, b := range f.Blocks {
			for _, ins := range b.Instrs {
				switch x := ins.(type) {
				case *ssa.Store:
					if g, ok := x.Addr.(*ssa.Global); ok && !isInit {
						e.mutableGlobals[g] = true
					}
					if g, ok := x.Val.(*ssa.Global); ok {
						e.mutableGlobals[g] = true
					}
					if fa, ok := x.Addr.(*ssa.FieldAddr); ok {
						key := fieldKey(fa)
						e.storeSites[key] = append(e.storeSites[key], f)
					}
				case *ssa.UnOp:
					// loads are fine
				default:
					for _, op := range ins.Operands(nil) {
						if g, ok := (*op).(*ssa.Global); ok {
							if _, isLoad := ins.(*ssa.UnOp); !isLoad {
								// address used by something other than load/store
								if _, isFA := ins.(*ssa.FieldAddr); isFA {
									// field of a global struct: treat the global as mutable memory
									e.mutableGlobals[g] = true
								} else if _, isDbg := ins.(*ssa.DebugRef); !isDbg {
									e.mutableGlobals[g] = true
								}
							}
						}
					}
				}
			}
		}
	}
}

func fieldKey(fa *ssa.FieldAddr) string {
	st := fa.X.Type().Underlying().(*types.Pointer).Elem()
	return typeName(st) + "." + st.Underlying().(*types.Struct).Field(fa.Field).Name()
}

// typeName is the stable printable identity of a type (package path qualified).
func typeName(t types.Type) string {
	return types.TypeString(t, func(p *types.Package) string { return p.Path() })
}

func (e *Engine) TagOf(t types.Type) int {
	n := typeName(t)
	if id, ok := e.tagOf[n]; ok {
		return id
	}
	id := len(e.tagNames) + 1
	e.tagOf[n] = id
	e.tagNames = append(e.tagNames, n)
	return id
}

// Implementers returns the concrete types (named T or *T) declared in the production import closure
// of the module that implement iface. Closed-world assumption; lambda/testdata mocks are not loaded.
func (e *Engine) Implementers(iface *types.Interface, ifaceName string) []types.Type {
	if r, ok := e.implCache[ifaceName]; ok {
		return r
	}
	var out []types.Type
	var paths []string
	for p := range e.AllPkgs {
		paths = append(paths, p)
	}
	sort.Strings(paths)
	for _, path := range paths {
		p := e.AllPkgs[path]
		if !strings.HasPrefix(path, ModPath) {
			continue
		}
		if strings.Contains(path, "/testdata") {
			continue
		}
		scope := p.Types.Scope()
		for _, name := range scope.Names() {
			tn, ok := scope.Lookup(name).(*types.TypeName)
			if !ok || tn.IsAlias() {
				continue
			}
			t := tn.Type()
			if types.IsInterface(t) {
				continue
			}
			if embedsInterface(t, iface) {
				continue // a struct that merely embeds the interface forwards to another implementation
			}
			if types.Implements(t, iface) {
				out = append(out, t)
			} else if pt := types.NewPointer(t); types.Implements(pt, iface) {
				out = append(out, pt)
			}
		}
	}
	e.implCache[ifaceName] = out
	return out
}

// MethodOf returns the SSA function implementing method name on concrete type t.
func (e *Engine) MethodOf(t types.Type, name string, pkg *types.Package) *ssa.Function {
	ms := e.Prog.MethodSets.MethodSet(t)
	sel := ms.Lookup(pkg, name)
	if sel == nil {
		// exported method: package irrelevant
		for i := 0; i < ms.Len(); i++ {
			if ms.At(i).Obj().Name() == name {
				sel = ms.At(i)
				break
			}
		}
	}
	if sel == nil {
		return nil
	}
	return e.Prog.MethodValue(sel)
}

// ContractOf finds the contract for an SSA function: the declared one, or – for promoted-method
// wrappers – the contract of the embedded type's method.
func (e *Engine) ContractOf(f *ssa.Function) *FuncContract {
	if f == nil {
		return nil
	}
	if c, ok := e.DB.Funcs[FullName(f)]; ok {
		return c
	}
	return nil
}

// embedsInterface: t is a struct with an embedded field whose type is (identical to) the interface
func embedsInterface(t types.Type, iface *types.Interface) bool {
	st, ok := t.Underlying().(*types.Struct)
	if !ok {
		return false
	}
	for i := 0; i < st.NumFields(); i++ {
		f := st.Field(i)
		if f.Embedded() {
			if fi, ok := f.Type().Underlying().(*types.Interface); ok && types.Identical(fi, iface) {
				return true
			}
		}
	}
	return false
}
