package govc

import (
	"bytes"
	"context"
	"encoding/json"
	"fmt"
	"os"
	"os/exec"
	"path/filepath"
	"regexp"
	"strconv"
	"strings"
	"text/template"
	"time"
)

type replayEntry struct {
	Function string `json:"function"` // unit name pattern (wildcards allowed)
	Template string `json:"template"`
	Obligation string `json:"obligation"` // optional: only for obligations whose name contains this
	Pkg      string `json:"pkg"` // package directory relative to the repository root
	Run      string `json:"run"`
}

func loadReplayIndex() []replayEntry {
	b, err := os.ReadFile(filepath.Join(VerifDir, "replay", "index.json"))
	if err != nil {
		return nil
	}
	var l []replayEntry
	json.Unmarshal(b, &l)
	return l
}

type tmplData struct {
	M          map[string]string
	Obligation string
	Function   string
	Clause     string
}

func tmplFuncs(m map[string]string) template.FuncMap {
	return template.FuncMap{
		"int": func(label string, def int64) int64 {
			if v, ok := m[label]; ok {
				if n, err := strconv.ParseInt(strings.TrimSpace(v), 10, 64); err == nil {
					return n
				}
			}
			return def
		},
		"bool": func(label string, def bool) bool {
			if v, ok := m[label]; ok {
				return strings.TrimSpace(v) == "true"
			}
			return def
		},
		"str": func(label string, def string) string {
			if v, ok := m[label]; ok {
				return strconv.Quote(smtUnquote(v))
			}
			return strconv.Quote(def)
		},
		"has": func(label string) bool { _, ok := m[label]; return ok },
		"isnil": func(label string) bool {
			v, ok := m[label]
			return !ok || strings.Contains(v, "mk-iface 0")
		},
		"contains": strings.Contains,
	}
}

// smtUnquote turns an SMT-LIB string literal into the Go string (bytes) it denotes.
func smtUnquote(v string) string {
	v = strings.TrimSpace(v)
	if len(v) < 2 || v[0] != '"' {
		return v
	}
	v = v[1 : len(v)-1]
	v = strings.ReplaceAll(v, "\"\"", "\"")
	var out []byte
	for i := 0; i < len(v); i++ {
		if v[i] == '\\' && i+2 < len(v) && v[i+1] == 'u' {
			j := i + 2
			hex := ""
			if v[j] == '{' {
				k := strings.IndexByte(v[j:], '}')
				if k > 0 {
					hex = v[j+1 : j+k]
					j = j + k + 1
				}
			} else if j+4 <= len(v) {
				hex = v[j : j+4]
				j += 4
			}
			if n, err := strconv.ParseUint(hex, 16, 32); err == nil && hex != "" {
				if n < 256 {
					out = append(out, byte(n))
				} else {
					out = append(out, []byte(string(rune(n)))...)
				}
				i = j - 1
				continue
			}
		}
		out = append(out, v[i])
	}
	return string(out)
}

func runReplayTemplate(rf *replayFile) {
	for _, e := range loadReplayIndex() {
		if !wildcard(e.Function, rf.Function) || e.Obligation != "" && !strings.Contains(rf.Obligation, e.Obligation) {
			continue
		}
		src, err := os.ReadFile(filepath.Join(VerifDir, "replay", e.Template))
		if err != nil {
			continue
		}
		t, err := template.New("replay").Funcs(tmplFuncs(rf.Model)).Parse(string(src))
		if err != nil {
			rf.ReplayOut = "template error: " + err.Error()
			return
		}
		var buf bytes.Buffer
		if err := t.Execute(&buf, tmplData{M: rf.Model, Obligation: rf.Obligation, Function: rf.Function, Clause: rf.Clause}); err != nil {
			rf.ReplayOut = "template error: " + err.Error()
			return
		}
		rf.ReplayPkg = e.Pkg
		rf.ReplayTest = buf.String()
		runReplay(rf)
		return
	}
}

// runReplay injects the rendered in-package test with -overlay (nothing is written to the repository) and runs it.
func runReplay(rf *replayFile) {
	if rf.ReplayTest == "" {
		return
	}
	dir, err := os.MkdirTemp("", "govc-replay-")
	if err != nil {
		return
	}
	defer os.RemoveAll(dir)
	testFile := filepath.Join(dir, "zz_verif_replay_test.go")
	os.WriteFile(testFile, []byte(rf.ReplayTest), 0o644)
	ov := map[string]map[string]string{"Replace": {filepath.Join(rf.RepoDir, rf.ReplayPkg, "zz_verif_replay_test.go"): testFile}}
	ob, _ := json.Marshal(ov)
	ovFile := filepath.Join(dir, "ov.json")
	os.WriteFile(ovFile, ob, 0o644)
	ctx, cancel := context.WithTimeout(context.Background(), 180*time.Second)
	defer cancel()
	cmd := exec.CommandContext(ctx, "go", "test", "-overlay", ovFile, "-vet=off", "-timeout", "60s", "-count=1", "-run", "TestVerifReplay", "./"+rf.ReplayPkg+"/")
	cmd.Dir = rf.RepoDir
	cmd.Env = append(os.Environ(), "GOFLAGS=-mod=mod", "GOPROXY=off", "GOSUMDB=off", "GOTOOLCHAIN=local")
	var out bytes.Buffer
	cmd.Stdout = &out
	cmd.Stderr = &out
	cmd.Run()
	rf.ReplayOut = truncate(out.String(), 8000)
	rf.Reproduced = strings.Contains(out.String(), "REPRODUCED")
	// a template may declare an output pattern that counts as reproduction (e.g. a crash of the test process)
	if m := regexp.MustCompile(`(?m)^// REPRO-IF-OUTPUT: (.*)$`).FindStringSubmatch(rf.ReplayTest); m != nil {
		if re, err := regexp.Compile(strings.TrimSpace(m[1])); err == nil && re.MatchString(out.String()) {
			rf.Reproduced = true
		}
	}
}

func replayMain(path string) int {
	b, err := os.ReadFile(path)
	if err != nil {
		fmt.Fprintln(os.Stderr, err)
		return 2
	}
	var rf replayFile
	if err := json.Unmarshal(b, &rf); err != nil {
		fmt.Fprintln(os.Stderr, err)
		return 2
	}
	fmt.Printf("obligation: %s\nclause: %s\nsolver status: %s\nmodel: %v\n", rf.Obligation, rf.Clause, rf.Status, rf.Model)
	if rf.ReplayTest == "" {
		fmt.Println("no replay harness for this obligation; the SMT query is at", rf.SMTFile)
		fmt.Println(rf.Solver)
		return 1
	}
	runReplay(&rf)
	fmt.Println(rf.ReplayOut)
	if rf.Reproduced {
		fmt.Println("REPRODUCED on the real code")
		return 1
	}
	fmt.Println("not reproduced")
	return 0
}
