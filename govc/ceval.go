package govc

import (
	"go/token"
	"go/constant"
	"fmt"
	"sort"
	"go/types"
	"math/big"
	"strings"
)

// cval is the value of a contract expression: an SMT term with its Go type (when it has one).
type cval struct {
	term  string
	typ   types.Type
	sort  string
	isNil bool
	addr  string // for a struct value read from an embedded field: the address of that field
	cell  string // a captured variable: the term is the content of this cell in the state the expression is evaluated in
}

type cenv struct {
	g    *vcgen
	vars map[string]cval
	cur  *State
	old  *State
	pkg  *types.Package
	ctx  string // for error messages
	prev *State // the state before the current iteration of a call-site loop (prev(e))
}

type cevalErr string

func (env *cenv) fail(f string, a ...interface{}) {
	panic(cevalErr(fmt.Sprintf(f, a...) + " [" + env.ctx + "]"))
}

func (env *cenv) with(name string, v cval) *cenv {
	n := *env
	n.vars = map[string]cval{}
	for k, x := range env.vars {
		n.vars[k] = x
	}
	n.vars[name] = v
	return &n
}

func (env *cenv) inOld() *cenv {
	n := *env
	n.cur = env.old
	return &n
}

// Eval translates a contract expression to an SMT term; errors (unknown names, type errors) are returned.
func (env *cenv) Eval(e *CExpr) (v cval, err error) {
	defer func() {
		if r := recover(); r != nil {
			if ce, ok := r.(cevalErr); ok {
				err = fmt.Errorf("%s", string(ce))
				return
			}
			panic(r)
		}
	}()
	return env.eval(e), nil
}

func (env *cenv) EvalBool(e *CExpr) (string, error) {
	v, err := env.Eval(e)
	if err != nil {
		return "", err
	}
	if v.sort != "Bool" {
		return "", fmt.Errorf("expression %s is not boolean (sort %s) [%s]", e, v.sort, env.ctx)
	}
	return v.term, nil
}

func (env *cenv) sortOfTypeName(name string) (string, types.Type) {
	switch name {
	case "int", "Int":
		return "Int", types.Typ[types.Int]
	case "ref":
		return "Int", nil
	case "bool":
		return "Bool", types.Typ[types.Bool]
	case "string":
		return "String", types.Typ[types.String]
	case "iface", "error":
		return "Iface", types.Universe.Lookup("error").Type()
	}
	t, err := env.g.eng.resolveTypeIn(name, env.pkg)
	if err != nil {
		env.fail("%v", err)
	}
	return env.g.s.sortOf(t), t
}

func (eng *Engine) resolveTypeIn(name string, pkg *types.Package) (types.Type, error) {
	if strings.HasPrefix(name, "*") {
		t, err := eng.resolveTypeIn(name[1:], pkg)
		if err != nil {
			return nil, err
		}
		return types.NewPointer(t), nil
	}
	if strings.HasPrefix(name, "[]") {
		t, err := eng.resolveTypeIn(name[2:], pkg)
		if err != nil {
			return nil, err
		}
		return types.NewSlice(t), nil
	}
	if strings.HasPrefix(name, "map[") {
		depth := 0
		for i := 3; i < len(name); i++ {
			if name[i] == '[' {
				depth++
			} else if name[i] == ']' {
				depth--
				if depth == 0 {
					k, err := eng.resolveTypeIn(name[4:i], pkg)
					if err != nil {
						return nil, err
					}
					v, err := eng.resolveTypeIn(name[i+1:], pkg)
					if err != nil {
						return nil, err
					}
					return types.NewMap(k, v), nil
				}
			}
		}
	}
	if !strings.Contains(name, ".") {
		if pkg != nil {
			if obj := pkg.Scope().Lookup(name); obj != nil {
				if tn, ok := obj.(*types.TypeName); ok {
					return tn.Type(), nil
				}
			}
		}
	}
	return eng.resolveType(name, nil)
}

func (env *cenv) boolv(t string) cval { return cval{term: t, sort: "Bool", typ: types.Typ[types.Bool]} }
func (env *cenv) intv(t string) cval  { return cval{term: t, sort: "Int", typ: types.Typ[types.Int]} }

// lookup of a package-level object
func (env *cenv) pkgObject(pkg *types.Package, name string) (cval, bool) {
	obj := pkg.Scope().Lookup(name)
	if obj == nil {
		return cval{}, false
	}
	g := env.g
	switch o := obj.(type) {
	case *types.Const:
		return cval{term: g.s.constTerm(o.Val(), o.Type()), typ: o.Type(), sort: g.s.sortOf(defaultType(o.Type()))}, true
	case *types.Var:
		sp := g.eng.Prog.Package(pkg)
		if sp == nil {
			env.fail("package %s has no SSA", pkg.Path())
		}
		gl, ok := sp.Members[name].(interface{ Name() string })
		_ = gl
		if !ok {
			env.fail("no global %s", name)
		}
		term := g.loadGlobalIn(sp.Var(name), env.cur)
		return cval{term: term, typ: o.Type(), sort: g.s.sortOf(o.Type())}, true
	}
	return cval{}, false
}

func defaultType(t types.Type) types.Type {
	if b, ok := t.(*types.Basic); ok && b.Info()&types.IsUntyped != 0 {
		return types.Default(t)
	}
	return t
}

func (env *cenv) eval(e *CExpr) cval {
	g := env.g
	switch e.Op {
	case "num":
		n, ok := new(big.Int).SetString(e.Name, 0)
		if !ok {
			env.fail("bad number %s", e.Name)
		}
		return env.intv(intLit(n))
	case "str":
		return cval{term: smtString(e.Name), sort: "String", typ: types.Typ[types.String]}
	case "id":
		if v, ok := env.vars[e.Name]; ok {
			if v.cell != "" {
				v.term = env.g.loadPtr(env.cur, v.cell, v.typ)
				if env.cur.formal == nil && !strings.Contains(v.term, "|q.") {
					env.g.stateVar("G.alloc", "Int")
					key := "cellwf:" + v.term
					if f := env.g.typeFacts(v.term, v.typ, env.g.get(env.cur, "G.alloc")); f != "true" && !env.g.declared[key] {
						env.g.declared[key] = true
						env.g.emit("(assert " + f + ")") // a value held by a variable is a well-formed value of its type
					}
				}
			}
			return v
		}
		switch e.Name {
		case "true", "false":
			return env.boolv(e.Name)
		case "nil":
			return cval{isNil: true, term: "0", sort: "Int"}
		}
		if env.pkg != nil {
			if v, ok := env.pkgObject(env.pkg, e.Name); ok {
				return v
			}
		}
		env.fail("unknown identifier %s", e.Name)
	case "sel":
		// package-qualified name?
		if e.Args[0].Op == "id" {
			if _, isVar := env.vars[e.Args[0].Name]; !isVar {
				if p := env.importedPkg(e.Args[0].Name); p != nil {
					if v, ok := env.pkgObject(p, e.Name); ok {
						return v
					}
					env.fail("package %s has no object %s", p.Path(), e.Name)
				}
			}
		}
		b := env.eval(e.Args[0])
		return env.field(b, e.Name)
	case "index":
		b := env.eval(e.Args[0])
		i := env.eval(e.Args[1])
		if b.typ == nil {
			// raw SMT array (ghost)
			return cval{term: fmt.Sprintf("(select %s %s)", b.term, i.term), sort: arrayElemSort(b.sort)}
		}
		switch u := b.typ.Underlying().(type) {
		case *types.Map:
			// Go semantics: the zero value for an absent key (and for a nil map)
			has, val, _ := g.mapArrs(u)
			return cval{term: fmt.Sprintf("(ite (and (not (= %s 0)) (select (select %s %s) %s)) (select (select %s %s) %s) %s)", b.term, g.get(env.cur, has), b.term, i.term, g.get(env.cur, val), b.term, i.term, g.s.zero(u.Elem())), typ: u.Elem(), sort: g.s.sortOf(u.Elem())}
		case *types.Slice:
			arr := g.elemArr(u.Elem())
			return cval{term: fmt.Sprintf("(select (select %s (sarr %s)) (+ (soff %s) %s))", g.get(env.cur, arr), b.term, b.term, i.term), typ: u.Elem(), sort: g.s.sortOf(u.Elem())}
		case *types.Basic:
			if u.Info()&types.IsString != 0 {
				return env.intv(fmt.Sprintf("(str.to_code (str.at %s %s))", b.term, i.term))
			}
		}
		env.fail("cannot index %s", e.Args[0])
	case "assert":
		b := env.eval(e.Args[0])
		if b.sort != "Iface" {
			env.fail("type assertion on non-interface %s", e.Args[0])
		}
		_, t := env.sortOfTypeName(e.Args[1].Name)
		if _, ok := t.Underlying().(*types.Pointer); ok {
			return cval{term: fmt.Sprintf("(ival %s)", b.term), typ: t, sort: "Int"}
		}
		return cval{term: g.unboxIface(t, b.term), typ: t, sort: g.s.sortOf(t)}
	case "un":
		a := env.eval(e.Args[0])
		switch e.Name {
		case "!":
			if a.sort != "Bool" {
				env.fail("! on non-boolean %s", e.Args[0])
			}
			return env.boolv(fmt.Sprintf("(not %s)", a.term))
		case "-":
			return cval{term: fmt.Sprintf("(- %s)", a.term), typ: a.typ, sort: "Int"}
		}
	case "bin":
		return env.binary(e)
	case "forall", "exists":
		n := env
		var binders []string
		for i, name := range e.BindNames {
			srt, t := env.sortOfTypeName(e.BindTypes[i].Name)
			sym := q("q." + name)
			binders = append(binders, fmt.Sprintf("(%s %s)", sym, srt))
			n = n.with(name, cval{term: sym, typ: t, sort: srt})
		}
		body := n.eval(e.Args[0])
		if body.sort != "Bool" {
			env.fail("quantifier body is not boolean")
		}
		return env.boolv(fmt.Sprintf("(%s (%s) %s)", e.Op, strings.Join(binders, " "), body.term))
	case "call":
		return env.call(e)
	}
	env.fail("cannot evaluate %s", e)
	return cval{}
}

func arrayElemSort(s string) string {
	// "(Array K V)" -> V  (K is a simple sort)
	s = strings.TrimSpace(s)
	if !strings.HasPrefix(s, "(Array ") {
		return "Int"
	}
	inner := s[len("(Array ") : len(s)-1]
	// first token is the key sort (no nested parens for keys we use)
	depth := 0
	for i := 0; i < len(inner); i++ {
		switch inner[i] {
		case '(':
			depth++
		case ')':
			depth--
		case ' ':
			if depth == 0 {
				return strings.TrimSpace(inner[i+1:])
			}
		}
	}
	return "Int"
}

func (env *cenv) importedPkg(name string) *types.Package {
	if env.pkg == nil {
		return nil
	}
	// import aliases (supvmodel "go.amzn.com/lambda/supervisor/model") are only visible in the syntax
	if pp, ok := env.g.eng.AllPkgs[env.pkg.Path()]; ok {
		for _, f := range pp.Syntax {
			for _, imp := range f.Imports {
				if imp.Name != nil && imp.Name.Name == name {
					path := strings.Trim(imp.Path.Value, "\"")
					if ip, ok := env.g.eng.AllPkgs[path]; ok && ip.Types != nil {
						return ip.Types
					}
				}
			}
		}
	}
	for _, imp := range env.pkg.Imports() {
		if imp.Name() == name {
			return imp
		}
	}
	// import aliases (e.g. log "github.com/sirupsen/logrus") are not visible in types.Package; try by suffix
	for _, imp := range env.pkg.Imports() {
		if strings.HasSuffix(imp.Path(), "/"+name) {
			return imp
		}
	}
	// any loaded package with that name (contracts may mention packages the file does not import)
	for _, p := range env.g.eng.AllPkgs {
		if p.Types != nil && p.Types.Name() == name && strings.HasPrefix(p.PkgPath, ModPath) {
			return p.Types
		}
	}
	return nil
}

// field access on a pointer-to-struct (heap read in env.cur) or on a struct value
func (env *cenv) field(b cval, name string) cval {
	g := env.g
	if b.typ == nil {
		env.fail("field %s of an untyped value", name)
	}
	t := b.typ
	isPtr := false
	if p, ok := t.Underlying().(*types.Pointer); ok {
		t = p.Elem()
		isPtr = true
	}
	st, ok := t.Underlying().(*types.Struct)
	if !ok {
		env.fail("field %s: base type %s is not a struct", name, typeName(b.typ))
	}
	for i := 0; i < st.NumFields(); i++ {
		f := st.Field(i)
		if f.Name() != name {
			continue
		}
		if isPtr {
			cv := cval{term: g.loadFieldIn(env.cur, b.term, t, i), typ: f.Type(), sort: g.s.sortOf(f.Type())}
			if _, isS := f.Type().Underlying().(*types.Struct); isS && isDecomposedStruct(f.Type()) {
				cv.addr = g.emb(t, f.Name(), b.term)
			}
			return cv
		}
		if !isDecomposedStruct(t) {
			env.fail("field %s of opaque struct value %s", name, typeName(t))
		}
		g.s.sortOf(t)
		return cval{term: fmt.Sprintf("(%s %s)", g.s.structAcc(t, name), b.term), typ: f.Type(), sort: g.s.sortOf(f.Type())}
	}
	// promoted field through an embedded struct
	for i := 0; i < st.NumFields(); i++ {
		f := st.Field(i)
		if f.Embedded() {
			if _, ok := f.Type().Underlying().(*types.Struct); ok {
				inner := env.field(b, f.Name())
				if r, ok2 := env.tryField(inner, name); ok2 {
					return r
				}
			}
		}
	}
	env.fail("type %s has no field %s", typeName(t), name)
	return cval{}
}

func (env *cenv) tryField(b cval, name string) (r cval, ok bool) {
	defer func() {
		if x := recover(); x != nil {
			if _, isCe := x.(cevalErr); isCe {
				ok = false
				return
			}
			panic(x)
		}
	}()
	return env.field(b, name), true
}

func (env *cenv) coerceNil(a, b *cval) {
	if a.isNil && !b.isNil {
		a.sort = b.sort
		a.typ = b.typ
		switch b.sort {
		case "Iface":
			a.term = "iface-nil"
		case "Slice":
			a.term = "slice-nil"
		default:
			a.term = "0"
		}
	}
}

func (env *cenv) binary(e *CExpr) cval {
	op := e.Name
	a := env.eval(e.Args[0])
	b := env.eval(e.Args[1])
	env.coerceNil(&a, &b)
	env.coerceNil(&b, &a)
	needBool := func() {
		if a.sort != "Bool" || b.sort != "Bool" {
			env.fail("operator %s needs boolean operands in %s", op, e)
		}
	}
	switch op {
	case "&&":
		needBool()
		return env.boolv(fmt.Sprintf("(and %s %s)", a.term, b.term))
	case "||":
		needBool()
		return env.boolv(fmt.Sprintf("(or %s %s)", a.term, b.term))
	case "==>":
		needBool()
		return env.boolv(fmt.Sprintf("(=> %s %s)", a.term, b.term))
	case "<==>":
		needBool()
		return env.boolv(fmt.Sprintf("(= %s %s)", a.term, b.term))
	case "==", "!=":
		if a.sort != b.sort {
			env.fail("comparison of different sorts %s vs %s in %s", a.sort, b.sort, e)
		}
		if a.sort == "Slice" && (a.isNil || b.isNil) {
			// x == nil for slices: array reference is nil
			x := a
			if a.isNil {
				x = b
			}
			t := fmt.Sprintf("(= (sarr %s) 0)", x.term)
			if op == "!=" {
				t = "(not " + t + ")"
			}
			return env.boolv(t)
		}
		t := fmt.Sprintf("(= %s %s)", a.term, b.term)
		if op == "!=" {
			t = "(not " + t + ")"
		}
		return env.boolv(t)
	case "<", "<=", ">", ">=":
		if a.sort == "F64" || b.sort == "F64" {
			// floating point is uninterpreted: the same comparison symbol as the code's, integer literals as f64 constants
			lit := func(x *CExpr, v cval) string {
				if v.sort == "F64" {
					return v.term
				}
				if x.Op == "num" {
					return env.g.s.f64lit(x.Name)
				}
				env.fail("comparison of a float with a non-literal integer in %s", e)
				return ""
			}
			fn := q("f64." + op)
			env.g.declareFun(fn, []string{"F64", "F64"}, "Bool")
			return env.boolv(fmt.Sprintf("(%s %s %s)", fn, lit(e.Args[0], a), lit(e.Args[1], b)))
		}
		if a.sort == "String" && b.sort == "String" {
			switch op {
			case "<":
				return env.boolv(fmt.Sprintf("(str.< %s %s)", a.term, b.term))
			case "<=":
				return env.boolv(fmt.Sprintf("(str.<= %s %s)", a.term, b.term))
			case ">":
				return env.boolv(fmt.Sprintf("(str.< %s %s)", b.term, a.term))
			default:
				return env.boolv(fmt.Sprintf("(str.<= %s %s)", b.term, a.term))
			}
		}
		if a.sort != "Int" || b.sort != "Int" {
			env.fail("ordering on non-integers in %s", e)
		}
		return env.boolv(fmt.Sprintf("(%s %s %s)", op, a.term, b.term))
	case "+":
		if a.sort == "String" && b.sort == "String" {
			return cval{term: fmt.Sprintf("(str.++ %s %s)", a.term, b.term), sort: "String", typ: a.typ}
		}
		fallthrough
	case "-", "*":
		if a.sort != "Int" || b.sort != "Int" {
			env.fail("arithmetic on non-integers in %s", e)
		}
		// contract arithmetic is mathematical (unbounded)
		return env.intv(fmt.Sprintf("(%s %s %s)", op, a.term, b.term))
	case "/":
		return env.intv(fmt.Sprintf("(div %s %s)", a.term, b.term))
	case "%":
		return env.intv(fmt.Sprintf("(mod %s %s)", a.term, b.term))
	}
	env.fail("unknown operator %s", op)
	return cval{}
}

func (env *cenv) call(e *CExpr) cval {
	g := env.g
	fnE := e.Args[0]
	args := e.Args[1:]
	if fnE.Op != "id" {
		env.fail("cannot call %s", fnE)
	}
	switch fnE.Name {
	case "old":
		if env.old == nil {
			env.fail("old() not available here")
		}
		return env.inOld().eval(args[0])
	case "prev":
		if env.prev == nil {
			env.fail("prev() is only available in the step clauses of a call-site loop")
		}
		n := *env
		n.cur = env.prev
		return n.eval(args[0])
	case "len":
		a := env.eval(args[0])
		switch a.sort {
		case "String":
			return env.intv(fmt.Sprintf("(str.len %s)", a.term))
		case "Slice":
			return env.intv(fmt.Sprintf("(slen %s)", a.term))
		}
		if a.typ != nil {
			if mt, ok := a.typ.Underlying().(*types.Map); ok {
				_, _, ln := g.mapArrs(mt)
				return env.intv(fmt.Sprintf("(ite (= %s 0) 0 (select %s %s))", a.term, g.get(env.cur, ln), a.term))
			}
		}
		env.fail("len of %s", args[0])
	case "timescalled":
		// timescalled(k): how often the foreach callback has been called for key k so far (inside the iterating function)
		k := env.eval(args[0])
		if _, ok := g.varSort[feCalls]; !ok {
			env.fail("timescalled: the function has no foreach clause")
		}
		return env.intv(fmt.Sprintf("(select %s %s)", g.get(env.cur, feCalls), k.term))
	case "strof":
		// strof(b): the string a []byte converts to (string(b)) in the current state
		a := env.eval(args[0])
		if a.sort != "Slice" || a.typ == nil || !isByteSlice(a.typ) {
			env.fail("strof needs a []byte, got %s", args[0])
		}
		g.declareFun("str.ofbytes", []string{"Slice", "(Array Int (Array Int Int))"}, "String")
		return cval{term: fmt.Sprintf("(str.ofbytes %s %s)", a.term, g.get(env.cur, g.elemArr(types.Typ[types.Byte]))), sort: "String", typ: types.Typ[types.String]}
	case "totallen":
		// totallen(s): the sum of the lengths of the elements of a []string
		a := env.eval(args[0])
		if a.sort != "Slice" {
			env.fail("totallen of %s", args[0])
		}
		st, ok := a.typ.Underlying().(*types.Slice)
		if !ok {
			env.fail("totallen of %s", args[0])
		}
		if bt, isB := st.Elem().Underlying().(*types.Basic); !isB || bt.Info()&types.IsString == 0 {
			env.fail("totallen needs a []string")
		}
		t := fmt.Sprintf("(%s (select %s (sarr %s)) (soff %s) (slen %s))", g.totalLenFun(), g.get(env.cur, g.elemArr(st.Elem())), a.term, a.term, a.term)
		if env.cur.formal == nil && !strings.Contains(t, "|q.") {
			key := "tlwf:" + t
			if !g.declared[key] {
				g.declared[key] = true
				g.emit(fmt.Sprintf("(assert (and (>= %s 0) (=> (= (slen %s) 0) (= %s 0))))", t, a.term, t))
			}
		}
		return env.intv(t)
	case "card":
		// card(visited): the number of keys in a visited-set
		a := env.eval(args[0])
		if !strings.HasPrefix(a.sort, "(Array ") || !strings.HasSuffix(a.sort, " Bool)") {
			env.fail("card of %s", args[0])
		}
		ks := strings.TrimSuffix(strings.TrimPrefix(a.sort, "(Array "), " Bool)")
		return env.intv(fmt.Sprintf("(%s %s)", g.cardFun(ks), a.term))
	case "has":
		m := env.eval(args[0])
		k := env.eval(args[1])
		mt, ok := m.typ.Underlying().(*types.Map)
		if !ok {
			env.fail("has: not a map")
		}
		has, _, _ := g.mapArrs(mt)
		return env.boolv(fmt.Sprintf("(and (not (= %s 0)) (select (select %s %s) %s))", m.term, g.get(env.cur, has), m.term, k.term))
	case "typeis":
		a := env.eval(args[0])
		if a.sort != "Iface" {
			env.fail("typeis on non-interface")
		}
		_, t := env.sortOfTypeName(args[1].Name)
		return env.boolv(fmt.Sprintf("(= (itag %s) %d)", a.term, g.eng.TagOf(t)))
	case "ratEq":
		// ratEq(C, num, den): the (possibly floating-point) Go constant C equals num/den exactly (decided with go/constant)
		var obj types.Object
		switch args[0].Op {
		case "id":
			if env.pkg != nil {
				obj = env.pkg.Scope().Lookup(args[0].Name)
			}
		case "sel":
			if p := env.importedPkg(args[0].Args[0].Name); p != nil {
				obj = p.Scope().Lookup(args[0].Name)
			}
		}
		co, ok := obj.(*types.Const)
		if !ok {
			env.fail("ratEq: %s is not a constant", args[0])
		}
		num, ok1 := new(big.Int).SetString(args[1].Name, 0)
		den, ok2 := new(big.Int).SetString(args[2].Name, 0)
		if !ok1 || !ok2 || den.Sign() == 0 {
			env.fail("ratEq: bad fraction")
		}
		want := constant.BinaryOp(constant.ToFloat(constant.Make(num)), token.QUO, constant.ToFloat(constant.Make(den)))
		if constant.Compare(constant.ToFloat(co.Val()), token.EQL, want) {
			return env.boolv("true")
		}
		return env.boolv("false")
	case "zero":
		// zero(T): the zero value of type T (for an opaque library struct: its distinguished zero constant)
		srt, t := env.sortOfTypeName(args[0].Name)
		if t == nil {
			env.fail("zero(%s): unknown type", args[0].Name)
		}
		return cval{term: g.s.zero(t), typ: t, sort: srt}
	case "quo":
		// quo(a, b): Go integer division (truncated toward zero)
		a := env.eval(args[0])
		b := env.eval(args[1])
		return env.intv(fmt.Sprintf("(let ((a!q %s) (b!q %s)) (ite (= b!q 0) 0 (ite (>= a!q 0) (ite (> b!q 0) (div a!q b!q) (- (div a!q (- b!q)))) (ite (> b!q 0) (- (div (- a!q) b!q)) (div (- a!q) (- b!q))))))", a.term, b.term))
	case "as":
		// as(x, T): Go conversion between types of the same representation (named string / integer types)
		a := env.eval(args[0])
		srt, t := env.sortOfTypeName(args[1].Name)
		if srt != a.sort {
			env.fail("as(%s, %s): different representation (%s vs %s)", args[0], args[1].Name, a.sort, srt)
		}
		return cval{term: a.term, typ: t, sort: srt}
	case "isnil":
		a := env.eval(args[0])
		switch a.sort {
		case "Iface":
			return env.boolv(fmt.Sprintf("(= (itag %s) 0)", a.term))
		case "Slice":
			return env.boolv(fmt.Sprintf("(= (sarr %s) 0)", a.term))
		}
		return env.boolv(fmt.Sprintf("(= %s 0)", a.term))
	case "held":
		a := env.eval(args[0])
		mon := g.monitorOfType(a.typ)
		if mon == nil {
			env.fail("held(%s): type has no monitor", args[0])
		}
		if g.freshObjs[a.term] {
			return env.boolv("true") // an object allocated by the running function is not shared yet
		}
		return env.boolv(fmt.Sprintf("(select %s %s)", g.get(env.cur, g.heldVar(mon)), a.term))
	case "wold", "bcast":
		a := env.eval(args[0])
		mon := g.monitorOfType(a.typ)
		if mon == nil {
			env.fail("%s(%s): type has no monitor", fnE.Name, args[0])
		}
		vn := g.woldVar(mon)
		if fnE.Name == "bcast" {
			vn = g.bcastVar(mon)
		}
		return env.boolv(fmt.Sprintf("(select %s %s)", g.get(env.cur, vn), a.term))
	case "unchanged":
		var parts []string
		for _, a := range args {
			n := env.eval(a)
			o := env.inOld().eval(a)
			parts = append(parts, fmt.Sprintf("(= %s %s)", n.term, o.term))
		}
		return env.boolv("(and " + strings.Join(parts, " ") + " true)")
	case "ite":
		c := env.eval(args[0])
		a := env.eval(args[1])
		b := env.eval(args[2])
		env.coerceNil(&a, &b)
		env.coerceNil(&b, &a)
		return cval{term: fmt.Sprintf("(ite %s %s %s)", c.term, a.term, b.term), typ: a.typ, sort: a.sort}
	case "cnt", "first", "last":
		if args[0].Op != "id" {
			env.fail("%s(<event>)", fnE.Name)
		}
		ev := args[0].Name
		if _, ok := g.eng.DB.Events[ev]; !ok {
			env.fail("unknown event %s", ev)
		}
		g.eventVars(ev)
		return env.intv(g.get(env.cur, "G."+fnE.Name+"."+ev))
	case "since":
		// since(E, S): occurrences of event E after the last occurrence of event S (all of them if S never occurred);
		// a quantity that spans calls: its value at entry is arbitrary (>= 0)
		ev, sv := args[0].Name, args[1].Name
		if _, ok := g.eng.DB.Events[ev]; !ok {
			env.fail("unknown event %s", ev)
		}
		if _, ok := g.eng.DB.Events[sv]; !ok {
			env.fail("unknown event %s", sv)
		}
		if !g.eng.sincePair(ev, sv) {
			env.fail("since(%s, %s) is not registered (internal)", ev, sv)
		}
		g.eventVars(ev)
		g.eventVars(sv)
		sn := snapVar(ev, sv)
		g.stateVar(sn, "Int")
		cnt, snap := g.get(env.cur, "G.cnt."+ev), g.get(env.cur, sn)
		if env.cur.formal == nil && !strings.Contains(snap, "|q.") {
			key := "sincewf:" + cnt + snap
			if !g.declared[key] {
				g.declared[key] = true
				g.emit(fmt.Sprintf("(assert (and (<= 0 %s) (<= %s %s)))", snap, snap, cnt)) // the snapshot is a past value of the counter
			}
		}
		return env.intv(fmt.Sprintf("(- %s %s)", cnt, snap))
	case "delta":
		// delta(E): occurrences of event E during the call
		ev := args[0].Name
		if _, ok := g.eng.DB.Events[ev]; !ok {
			env.fail("unknown event %s", ev)
		}
		if env.old == nil {
			env.fail("delta() needs a pre-state")
		}
		g.eventVars(ev)
		return env.intv(fmt.Sprintf("(- %s %s)", g.get(env.cur, "G.cnt."+ev), g.get(env.old, "G.cnt."+ev)))
	case "lastret", "firstret":
		ev := args[0].Name
		rn := "G.ret." + ev
		if fnE.Name == "firstret" {
			rn = "G.fret." + ev
		}
		srt, ok := g.varSort[rn]
		if !ok {
			env.fail("lastret(%s): the event never occurs in this function", ev)
		}
		return cval{term: g.get(env.cur, rn), sort: srt, typ: g.retTypes[ev]}
	case "lastarg":
		// lastarg(E, k): k-th argument (0 = receiver of a method/interface call) of the last occurrence of call event E
		idx := args[1].Name
		if args[1].Op == "id" {
			// lastarg(E, <parameter name>): the position is taken from the callee's declaration
			found := false
			if sg := g.eng.eventSig(args[0].Name); sg != nil {
				for k, n := range sg.names {
					if n == idx && n != "" {
						idx, found = fmt.Sprint(k), true
					}
				}
			}
			if !found {
				env.fail("lastarg(%s,%s): the function the event names has no parameter of that name", args[0].Name, args[1].Name)
			}
		}
		an := fmt.Sprintf("G.arg.%s.%s", args[0].Name, idx)
		srt, ok := g.varSort[an]
		if !ok {
			env.fail("lastarg(%s,%s): the event never occurs in this function", args[0].Name, args[1].Name)
		}
		return cval{term: g.get(env.cur, an), sort: srt, typ: g.argTypes[an]}
	case "now":
		g.stateVar("G.now", "Int")
		return env.intv(g.get(env.cur, "G.now"))
	case "ghost":
		// ghost(name): user ghost variable of sort Int
		name := "G.u." + args[0].Name
		g.stateVar(name, "Int")
		return env.intv(g.get(env.cur, name))
	case "gm":
		// gm(name, key): ghost map Int -> Int
		name := "G.m." + args[0].Name
		g.stateVar(name, "(Array Int Int)")
		k := env.eval(args[1])
		kt := k.term
		if k.sort == "Iface" {
			kt = fmt.Sprintf("(ival %s)", k.term)
		}
		return env.intv(fmt.Sprintf("(select %s %s)", g.get(env.cur, name), kt))
	case "fresh":
		a := env.eval(args[0])
		if env.old == nil {
			env.fail("fresh() needs a pre-state")
		}
		t := a.term
		if a.sort == "Iface" {
			t = fmt.Sprintf("(ival %s)", a.term)
		}
		return env.boolv(fmt.Sprintf("(> %s %s)", t, g.get(env.old, "G.alloc")))
	case "hasprefix":
		a, b := env.eval(args[0]), env.eval(args[1])
		return env.boolv(fmt.Sprintf("(str.prefixof %s %s)", b.term, a.term))
	case "hassuffix":
		a, b := env.eval(args[0]), env.eval(args[1])
		return env.boolv(fmt.Sprintf("(str.suffixof %s %s)", b.term, a.term))
	case "contains":
		a, b := env.eval(args[0]), env.eval(args[1])
		return env.boolv(fmt.Sprintf("(str.contains %s %s)", a.term, b.term))
	case "inre":
		a := env.eval(args[0])
		if args[1].Op != "str" {
			env.fail("inre(s, \"pattern\")")
		}
		re, err := regexToSMT(args[1].Name, false)
		if err != nil {
			env.fail("inre: %v", err)
		}
		return env.boolv(fmt.Sprintf("(str.in_re %s %s)", a.term, re))
	case "fapply":
		// fapply(f, args...): the value the pure function value f returns
		f := env.eval(args[0])
		sig, ok := f.typ.Underlying().(*types.Signature)
		if !ok || sig.Results().Len() != 1 {
			env.fail("fapply: %s is not a single-result function value", args[0])
		}
		var as []string
		for _, a := range args[1:] {
			as = append(as, env.eval(a).term)
		}
		rt := sig.Results().At(0).Type()
		return cval{term: g.applyTerm(sig, f.term, as), typ: rt, sort: g.s.sortOf(rt)}
	case "sarr":
		a := env.eval(args[0])
		if a.sort != "Slice" {
			env.fail("sarr of non-slice")
		}
		return cval{term: fmt.Sprintf("(sarr %s)", a.term), sort: "Int"}
	case "iface":
		// iface(x): the interface value holding pointer x with its static type
		a := env.eval(args[0])
		if a.sort == "Iface" {
			return a
		}
		if a.typ == nil {
			env.fail("iface(%s): untyped value", args[0])
		}
		return cval{term: g.makeIface(a.typ, a.term), sort: "Iface"}
	case "deref":
		// deref(p): the content of the cell p points to, in the state the expression is evaluated in
		a := env.eval(args[0])
		if a.typ == nil {
			env.fail("deref(%s): untyped value", args[0])
		}
		pt, ok := a.typ.Underlying().(*types.Pointer)
		if !ok {
			env.fail("deref(%s): not a pointer", args[0])
		}
		return cval{term: g.loadPtr(env.cur, a.term, pt.Elem()), typ: pt.Elem(), sort: g.s.sortOf(pt.Elem())}
	case "tagof":
		a := env.eval(args[0])
		return env.intv(fmt.Sprintf("(itag %s)", a.term))
	case "ref":
		a := env.eval(args[0])
		if a.sort == "Iface" {
			return cval{term: fmt.Sprintf("(ival %s)", a.term), sort: "Int"}
		}
		return cval{term: a.term, sort: "Int"}
	case "int":
		a := env.eval(args[0])
		return env.intv(a.term)
	}
	// spec function
	if sf, ok := g.eng.DB.Specs[fnE.Name]; ok {
		return env.specCall(sf, args)
	}
	env.fail("unknown function %s in contract", fnE.Name)
	return cval{}
}

func (env *cenv) specCall(sf *SpecFunc, args []*CExpr) cval {
	g := env.g
	if len(args) != len(sf.Params) {
		env.fail("spec %s: %d arguments expected", sf.Name, len(sf.Params))
	}
	pkgEnv := *env
	if p, ok := g.eng.AllPkgs[sf.Pkg]; ok && p.Types != nil {
		pkgEnv.pkg = p.Types
	}
	rs, rt := pkgEnv.sortOfTypeName(sf.Result.Name)
	var vals []cval
	for i, a := range args {
		v := env.eval(a)
		ps, pt := pkgEnv.sortOfTypeName(sf.ParamTypes[i].Name)
		if v.isNil {
			v.sort, v.typ = ps, pt
			if ps == "Iface" {
				v.term = "iface-nil"
			}
		}
		if v.sort != ps && v.addr != "" && ps == "Int" && pt != nil {
			// an embedded struct passed where a pointer is expected: its address
			if ptr, ok := pt.Underlying().(*types.Pointer); ok && types.Identical(ptr.Elem(), v.typ) {
				v = cval{term: v.addr, typ: pt, sort: "Int"}
			}
		}
		if v.sort != ps {
			env.fail("spec %s: argument %d has sort %s, want %s", sf.Name, i, v.sort, ps)
		}
		if v.typ == nil {
			v.typ = pt
		}
		vals = append(vals, v)
	}
	if sf.Rec && sf.Body != nil {
		return env.recSpecCall(sf, &pkgEnv, vals, rs, rt)
	}
	if sf.Body != nil {
		// macro expansion: evaluated in the spec's own package scope with parameters bound
		n := pkgEnv
		n.vars = map[string]cval{}
		for i, p := range sf.Params {
			n.vars[p] = vals[i]
		}
		r := n.eval(sf.Body)
		if r.sort != rs {
			env.fail("spec %s: body has sort %s, declared %s", sf.Name, r.sort, rs)
		}
		if r.typ == nil {
			r.typ = rt
		}
		return r
	}
	// uninterpreted
	var ps []string
	var ts []string
	for i := range sf.Params {
		s, _ := pkgEnv.sortOfTypeName(sf.ParamTypes[i].Name)
		ps = append(ps, s)
		ts = append(ts, vals[i].term)
	}
	name := q("spec." + sf.Name)
	g.declareFun(name, ps, rs)
	if len(ts) == 0 {
		return cval{term: name, sort: rs, typ: rt}
	}
	return cval{term: fmt.Sprintf("(%s %s)", name, strings.Join(ts, " ")), sort: rs, typ: rt}
}

// recSpecCall: recursive spec functions become define-fun-rec; every state variable the body reads is an
// extra leading parameter, instantiated with the versions of the calling state.
func (env *cenv) recSpecCall(sf *SpecFunc, pkgEnv *cenv, vals []cval, rs string, rt types.Type) cval {
	g := env.g
	if g.recSpecs == nil {
		g.recSpecs = map[string][]string{}
	}
	name := q("rec." + sf.Name)
	if env.cur.formal != nil {
		// a recursive call inside the body being defined: same heap formals (completed after the first pass)
		var ts []string
		for _, v := range vals {
			ts = append(ts, v.term)
		}
		return cval{term: "(" + name + " @HEAP@ " + strings.Join(ts, " ") + ")", sort: rs, typ: rt}
	}
	heap, done := g.recSpecs[sf.Name]
	if !done {
		// evaluate the body with formal heap symbols to find out which state variables it depends on
		var formals []string
		fenv := *pkgEnv
		fenv.cur = &State{m: map[string]string{}, formal: &formals}
		fenv.old = nil
		fenv.vars = map[string]cval{}
		var params []string
		for i, p := range sf.Params {
			ps, pt := pkgEnv.sortOfTypeName(sf.ParamTypes[i].Name)
			sym := q("rp." + p)
			fenv.vars[p] = cval{term: sym, sort: ps, typ: pt}
			params = append(params, fmt.Sprintf("(%s %s)", sym, ps))
		}
		body := fenv.eval(sf.Body)
		if body.sort != rs {
			env.fail("spec rec %s: body has sort %s, declared %s", sf.Name, body.sort, rs)
		}
		sort.Strings(formals)
		var hparams, hnames []string
		for _, f := range formals {
			hparams = append(hparams, fmt.Sprintf("(%s %s)", q("hf."+f), g.varSort[f]))
			hnames = append(hnames, q("hf."+f))
		}
		text := strings.ReplaceAll(body.term, "@HEAP@", strings.Join(hnames, " "))
		g.emit(fmt.Sprintf("(define-fun-rec %s (%s) %s %s)", name, strings.Join(append(hparams, params...), " "), rs, text))
		g.recSpecs[sf.Name] = formals
		heap = formals
	}
	var ts []string
	for _, f := range heap {
		ts = append(ts, g.get(env.cur, f))
	}
	for _, v := range vals {
		ts = append(ts, v.term)
	}
	return cval{term: "(" + name + " " + strings.Join(ts, " ") + ")", sort: rs, typ: rt}
}
