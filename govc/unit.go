package govc

import (
	"bytes"
	"fmt"
	"go/ast"
	"go/printer"
	"go/token"
	"go/types"
	"sort"
	"strings"

	"golang.org/x/tools/go/ssa"
)

func (g *vcgen) isRacyField(st types.Type, idx int) bool { return false }

// GenUnit generates the verification condition of fn against its contract.
func (e *Engine) GenUnit(fn *ssa.Function) (u *Unit) {
	fc := e.ContractOf(fn)
	u = &Unit{Fn: fn, Name: shortName(FullName(fn)), Sorts: newSorts(e), UsedContracts: map[string]bool{}}
	g := &vcgen{eng: e, fn: fn, fc: fc, u: u, s: u.Sorts, st: &State{m: map[string]string{}}, pc: "true",
		vals: map[ssa.Value]string{}, tup: map[ssa.Value][]string{}, addr: map[ssa.Value]addrInfo{},
		varSort: map[string]string{}, declared: map[string]bool{}, edgeCond: map[[2]int]string{}, reach: map[*ssa.BasicBlock]string{},
		blockExit: map[*ssa.BasicBlock]*State{}, callOrd: map[string]int{}, oblNames: map[string]int{}, params: map[string]cval{},
		sharedCell: map[ssa.Value]bool{}, rangeVis: map[ssa.Value]string{}, embIDs: map[string]int{},
		lockSnaps: map[string]*State{}, closures: map[string]*ssa.MakeClosure{}, freshObjs: map[string]bool{},
		loopInvs: map[*ssa.BasicBlock][]Clause{}}
	defer func() {
		if r := recover(); r != nil {
			u.Unsupported = append(u.Unsupported, fmt.Sprintf("generator panic: %v", r))
		}
	}()
	if fc != nil && fc.Flags["safety"] == "on" || e.ForceSafety {
		g.safety = true
		u.Safety = true
	}
	if fc != nil {
		if why, trusted := fc.Flags["trusted"]; trusted {
			// the contract is used by callers but the body is not verified: an explicit assumption
			u.Assumptions = append(u.Assumptions, "TRUSTED contract (body NOT verified): "+FullName(fn)+" — "+why)
			return u
		}
	}
	g.old = &State{m: map[string]string{}}
	g.old0 = &State{m: map[string]string{}}
	g.stateVar("G.alloc", "Int")
	g.emit(fmt.Sprintf("(assert (>= %s 1000))", g.base("G.alloc")))

	// parameters and captured variables
	var argTerms, bindTerms []string
	for _, p := range fn.Params {
		name := q("p." + p.Name())
		g.declare(name, g.s.sortOf(p.Type()))
		g.vals[p] = name
		g.assumeType(name, p.Type())
		argTerms = append(argTerms, name)
		g.addWitness(p.Name(), name)
	}
	for _, fv := range fn.FreeVars {
		name := q("fv." + fv.Name())
		g.declare(name, g.s.sortOf(fv.Type()))
		g.vals[fv] = name
		g.assumeType(name, fv.Type())
		bindTerms = append(bindTerms, name)
	}
	for i, fv := range fn.FreeVars {
		if capturedCell(fn, i) {
			g.assume(fmt.Sprintf("(not (= %s 0))", g.vals[fv])) // the address of a captured variable is never nil
		}
		if stableCaptured(fn, i) {
			g.protectCell(g.vals[fv], fv.Type().Underlying().(*types.Pointer).Elem(), true) // assigned once before capture: no callee can change it
		}
	}
	if fn.Signature.Recv() != nil && len(argTerms) > 0 {
		if _, isPtr := fn.Signature.Recv().Type().Underlying().(*types.Pointer); isPtr {
			// panic-freedom is modular: a method may assume its receiver; with safety on every call site proves it
			// (safe/nil(receiver ...)), without it the absence of nil dereferences is the stated blanket assumption
			g.assume(fmt.Sprintf("(not (= %s 0))", argTerms[0]))
		}
	}
	g.findSharedCells()
	g.declareEventVars()
	sig := fn.Signature
	if fc == nil {
		fc = &FuncContract{Pkg: pkgPathOf(fn), Key: fn.Name(), Loops: map[string][]Clause{}, Flags: map[string]string{}}
	}
	g.entryEnv = g.contractEnv(fc, fn, sig, argTerms, bindTerms, nil, g.old0, nil)
	if fc.Flags["foreach"] != "" {
		if mv, ok := g.foreachEntryMap(); ok {
			ks := g.s.sortOf(mv.typ.Underlying().(*types.Map).Key())
			g.stateVar(feCalls, fmt.Sprintf("(Array %s Int)", ks))
			g.emit(fmt.Sprintf("(assert (= %s ((as const (Array %s Int)) 0)))", g.base(feCalls), ks))
		}
	}
	// receiver / pointer parameters of a type with a type invariant: assumed at entry
	g.assumeTypeInvs(fn, argTerms)
	// invariants over the package variables of the function's package hold at every entry
	for _, gi := range e.DB.GlobalInvs[pkgPathOf(fn)] {
		t, err := g.entryEnv.EvalBool(gi.Expr)
		if err != nil {
			g.unsupported("globalinv: %v", err)
			continue
		}
		g.assume(t)
	}
	for _, r := range fc.Requires {
		t, err := g.entryEnv.EvalBool(r.Expr)
		if err != nil {
			g.unsupported("requires: %v", err)
			continue
		}
		g.assume(t)
	}
	g.cover("requires", "true")

	order := g.analyseCFG()
	g.nameLoops()
	// a loop clause whose loop is no longer there (the loop was rewritten in another form): the invariants have lost their
	// anchor; what they carried cannot be decided, which is not a violation of anything
	if fc != nil && len(fc.Loops) > 0 {
		have := map[string]bool{}
		for _, sg := range g.loopSig {
			have[sg] = true
		}
		singleFallback := len(g.loopBody) == 1 && len(fc.Loops) == 1
		var lost []string
		for key := range fc.Loops {
			if strings.HasPrefix(key, "visit ") || have[key] || singleFallback {
				continue
			}
			lost = append(lost, key)
		}
		sort.Strings(lost)
		for _, key := range lost {
			g.unsupported("loop clause without its loop (contract anchor missing): loop %s", key)
		}
	}
	u.Blocks = len(order)
	for _, b := range order {
		u.Instrs += len(b.Instrs)
		g.block(b)
	}
	g.exit(fc, sig, argTerms, bindTerms)
	return u
}

// cells captured by a closure that is started as a goroutine (or stored away) may change at any time
func (g *vcgen) findSharedCells() {
	for _, b := range g.fn.Blocks {
		for _, ins := range b.Instrs {
			var mc *ssa.MakeClosure
			switch x := ins.(type) {
			case *ssa.Go:
				mc, _ = x.Common().Value.(*ssa.MakeClosure)
			}
			if mc == nil {
				continue
			}
			for _, bv := range mc.Bindings {
				if al, ok := bv.(*ssa.Alloc); ok {
					// only cells the goroutine may write are unstable for the spawner
					if closureWrites(mc.Fn.(*ssa.Function), al, mc) {
						g.sharedCell[al] = true
						if g.sharedSince == nil {
							g.sharedSince = map[ssa.Value][]ssa.Instruction{}
						}
						g.sharedSince[al] = append(g.sharedSince[al], ins)
					}
				}
			}
		}
	}
}

func closureWrites(fn *ssa.Function, cell *ssa.Alloc, mc *ssa.MakeClosure) bool {
	idx := -1
	for i, b := range mc.Bindings {
		if b == cell {
			idx = i
		}
	}
	if idx < 0 || idx >= len(fn.FreeVars) {
		return true
	}
	return !freeVarReadOnly(fn, idx, map[ssa.Value]bool{})
}

func (g *vcgen) assumeTypeInvs(fn *ssa.Function, args []string) {
	for i, p := range fn.Params {
		g.assumeTypeInvOn(args[i], p.Type())
		g.assumeEmbeddedTypeInvs(args[i], p.Type(), 0)
	}
}

func (g *vcgen) typeInvOf(t types.Type) *TypeInv {
	n := namedOf(t)
	if n == nil || n.Obj().Pkg() == nil {
		return nil
	}
	return g.eng.DB.TypeInvs[n.Obj().Pkg().Path()+"."+n.Obj().Name()]
}

func (g *vcgen) typeInvTerms(ti *TypeInv, obj string, t types.Type, st *State) []string {
	var pkg *types.Package
	if p, ok := g.eng.AllPkgs[ti.Pkg]; ok {
		pkg = p.Types
	}
	pt := t
	if _, ok := t.Underlying().(*types.Pointer); !ok {
		pt = types.NewPointer(t)
	}
	env := &cenv{g: g, vars: map[string]cval{ti.Recv: {term: obj, typ: pt, sort: "Int"}}, cur: st, pkg: pkg, ctx: "typeinv " + ti.Type}
	var out []string
	for _, c := range ti.Clauses {
		tm, err := env.EvalBool(c.Expr)
		if err != nil {
			g.unsupported("typeinv %s: %v", ti.Type, err)
			continue
		}
		out = append(out, tm)
	}
	return out
}

func (g *vcgen) assumeTypeInvOn(obj string, t types.Type) {
	if _, ok := t.Underlying().(*types.Pointer); !ok {
		return
	}
	ti := g.typeInvOf(t)
	if ti == nil {
		return
	}
	for _, tm := range g.typeInvTerms(ti, obj, t, g.st) {
		g.assume(fmt.Sprintf("(=> (not (= %s 0)) %s)", obj, tm))
	}
}

// assumeEmbeddedTypeInvs: the by-value struct fields of *obj whose type has an invariant satisfy it as well (visible-state
// semantics: such a part is modified only through its own methods, which re-establish it, or by direct field stores,
// which oblige the storing function)
func (g *vcgen) assumeEmbeddedTypeInvs(obj string, t types.Type, depth int) {
	pt, ok := t.Underlying().(*types.Pointer)
	if !ok || depth > 2 {
		return
	}
	st, ok := pt.Elem().Underlying().(*types.Struct)
	if !ok {
		return
	}
	for i := 0; i < st.NumFields(); i++ {
		f := st.Field(i)
		if _, isS := f.Type().Underlying().(*types.Struct); !isS {
			continue
		}
		fpt := types.NewPointer(f.Type())
		ti := g.typeInvOf(fpt)
		addr := ""
		if ti != nil {
			addr = g.emb(pt.Elem(), f.Name(), obj)
			for _, tm := range g.typeInvTerms(ti, addr, fpt, g.st) {
				g.assume(fmt.Sprintf("(=> (not (= %s 0)) %s)", obj, tm))
			}
		}
	}
}

// ---- loops ----

func exprText(fset *token.FileSet, n ast.Node) string {
	var buf bytes.Buffer
	printer.Fprint(&buf, fset, n)
	return strings.Join(strings.Fields(buf.String()), " ")
}

// nameLoops assigns every loop header a stable signature taken from the source text of the loop.
func (g *vcgen) nameLoops() {
	g.loopSig = map[*ssa.BasicBlock]string{}
	var headers []*ssa.BasicBlock
	for h := range g.loopBody {
		headers = append(headers, h)
	}
	sort.Slice(headers, func(i, j int) bool { return headers[i].Index < headers[j].Index })
	var sigs []string
	syn := g.fn.Syntax()
	if syn != nil {
		var body ast.Node
		switch s := syn.(type) {
		case *ast.FuncDecl:
			body = s.Body
		case *ast.FuncLit:
			body = s.Body
		}
		if body != nil {
			fset := g.eng.Prog.Fset
			ast.Inspect(body, func(n ast.Node) bool {
				switch s := n.(type) {
				case *ast.FuncLit:
					return false
				case *ast.ForStmt:
					if s.Cond != nil {
						sigs = append(sigs, "for "+exprText(fset, s.Cond))
					} else {
						sigs = append(sigs, "for")
					}
				case *ast.RangeStmt:
					sigs = append(sigs, "range "+exprText(fset, s.X))
				}
				return true
			})
		}
	}
	seen := map[string]int{}
	for i, h := range headers {
		sig := fmt.Sprintf("loop#%d", i+1)
		if len(sigs) == len(headers) {
			sig = sigs[i]
		}
		seen[sig]++
		if seen[sig] > 1 {
			sig = fmt.Sprintf("%s#%d", sig, seen[sig])
		}
		g.loopSig[h] = sig
	}
}

// varAt resolves a source-level variable name to its SSA value at the head of block b.
func (g *vcgen) varAt(name string, b *ssa.BasicBlock, phiVals map[*ssa.Phi]string) (cval, bool) {
	for _, ins := range b.Instrs {
		phi, ok := ins.(*ssa.Phi)
		if !ok {
			break
		}
		if phi.Comment == name {
			return cval{term: phiVals[phi], typ: phi.Type(), sort: g.s.sortOf(phi.Type())}, true
		}
	}
	// phis of enclosing loop headers (compiler-named loop counters such as "rangeindex")
	for d := b.Idom(); d != nil; d = d.Idom() {
		for _, ins := range d.Instrs {
			phi, ok := ins.(*ssa.Phi)
			if !ok {
				break
			}
			if phi.Comment == name {
				if t, ok := g.vals[phi]; ok {
					return cval{term: t, typ: phi.Type(), sort: g.s.sortOf(phi.Type())}, true
				}
			}
		}
	}
	// DebugRefs anywhere in the function whose value is defined in a block dominating b
	// (the DebugRef at a declaration carries the zero constant; uses carry the real value)
	var best ssa.Value
	bestAddr := false
	for _, blk := range g.fn.Blocks {
		for _, ins := range blk.Instrs {
			dr, ok := ins.(*ssa.DebugRef)
			if !ok {
				continue
			}
			id, ok := dr.Expr.(*ast.Ident)
			if !ok || id.Name != name {
				continue
			}
			if _, isConst := dr.X.(*ssa.Const); isConst {
				continue
			}
			if def, ok := dr.X.(ssa.Instruction); ok {
				if def.Block() != b && !g.dom[b][def.Block()] {
					continue
				}
				if def.Block() == b {
					continue // defined inside the header itself: not available at its head
				}
			}
			if _, known := g.vals[dr.X]; !known {
				if _, isParam := dr.X.(*ssa.Parameter); !isParam {
					continue
				}
			}
			best, bestAddr = dr.X, dr.IsAddr
		}
	}
	if best != nil {
		if bestAddr {
			pt := best.Type().Underlying().(*types.Pointer)
			return cval{term: g.loadPtr(g.st, g.val(best), pt.Elem()), typ: pt.Elem(), sort: g.s.sortOf(pt.Elem())}, true
		}
		return cval{term: g.val(best), typ: best.Type(), sort: g.s.sortOf(best.Type())}, true
	}
	return cval{}, false
}

func (g *vcgen) loopEnv(h *ssa.BasicBlock, phiVals map[*ssa.Phi]string, st *State) *cenv {
	env := *g.entryEnv
	env.vars = map[string]cval{}
	for k, v := range g.entryEnv.vars {
		env.vars[k] = v
	}
	env.cur = st
	env.old = g.oldView(st)
	env.ctx = g.u.Name + " loop " + g.loopSig[h]
	// every identifier used by the invariants that is not a parameter is looked up as a source variable
	for _, c := range g.loopInvs[h] {
		for _, id := range freeIdents(c.Expr) {
			if _, ok := env.vars[id]; ok {
				continue
			}
			if id == "visited" {
				// the ghost visited-set of the map range this loop iterates
				for _, ins := range h.Instrs {
					if nx, ok := ins.(*ssa.Next); ok {
						if rng, ok := nx.Iter.(*ssa.Range); ok {
							if vn := g.rangeVis[rng]; vn != "" {
								env.vars["visited"] = cval{term: g.get(st, vn), sort: g.varSort[vn]}
							}
						}
					}
				}
				continue
			}
			if v, ok := g.varAt(id, h, phiVals); ok {
				env.vars[id] = v
			}
		}
	}
	return &env
}

func freeIdents(e *CExpr) []string {
	var out []string
	var walk func(x *CExpr, bound map[string]bool)
	walk = func(x *CExpr, bound map[string]bool) {
		if x == nil {
			return
		}
		switch x.Op {
		case "id":
			if !bound[x.Name] {
				out = append(out, x.Name)
			}
		case "forall", "exists":
			nb := map[string]bool{}
			for k := range bound {
				nb[k] = true
			}
			for _, n := range x.BindNames {
				nb[n] = true
			}
			walk(x.Args[0], nb)
		case "call":
			for _, a := range x.Args[1:] {
				walk(a, bound)
			}
		default:
			for _, a := range x.Args {
				walk(a, bound)
			}
		}
	}
	walk(e, map[string]bool{})
	return out
}

// ---- blocks ----

func (g *vcgen) mergeStates(conds []string, states []*State) *State {
	if len(states) == 1 {
		return states[0].clone()
	}
	keys := map[string]bool{}
	for _, s := range states {
		for k := range s.m {
			keys[k] = true
		}
	}
	var ks []string
	for k := range keys {
		ks = append(ks, k)
	}
	sort.Strings(ks)
	out := &State{m: map[string]string{}}
	for _, k := range ks {
		first := g.get(states[0], k)
		same := true
		for _, s := range states[1:] {
			if g.get(s, k) != first {
				same = false
			}
		}
		if same {
			out.m[k] = first
			continue
		}
		term := g.get(states[len(states)-1], k)
		for i := len(states) - 2; i >= 0; i-- {
			term = fmt.Sprintf("(ite %s %s %s)", conds[i], g.get(states[i], k), term)
		}
		out.m[k] = g.define(k, g.varSort[k], term)
	}
	return out
}

func (g *vcgen) block(b *ssa.BasicBlock) {
	isHeader := g.loopBody[b] != nil
	var conds []string
	var states []*State
	var preds []*ssa.BasicBlock
	for _, p := range b.Preds {
		key := [2]int{p.Index, b.Index}
		if g.backEdge[key] {
			continue
		}
		c, ok := g.edgeCond[key]
		if !ok {
			continue // unreachable predecessor
		}
		conds = append(conds, c)
		states = append(states, g.blockExit[p])
		preds = append(preds, p)
	}
	if b.Index == 0 {
		g.pc = "true"
		if g.entryPC != "" {
			g.pc = g.entryPC
		}
	} else {
		if len(conds) == 0 {
			// unreachable (e.g. only reachable through a cut edge)
			g.pc = "false"
			g.reach[b] = "false"
			g.blockExit[b] = g.st.clone()
			return
		}
		g.pc = g.define(fmt.Sprintf("reach.b%d", b.Index), "Bool", "(or "+strings.Join(conds, " ")+" false)")
		g.st = g.mergeStates(conds, states)
	}
	g.reach[b] = g.pc

	// phi values from the (non-back-edge) predecessors
	phiVals := map[*ssa.Phi]string{}
	for _, ins := range b.Instrs {
		phi, ok := ins.(*ssa.Phi)
		if !ok {
			break
		}
		var term string
		n := 0
		for i := len(b.Preds) - 1; i >= 0; i-- {
			p := b.Preds[i]
			key := [2]int{p.Index, b.Index}
			if g.backEdge[key] {
				continue
			}
			c, ok := g.edgeCond[key]
			if !ok {
				continue
			}
			v := g.valIn(phi.Edges[i], p)
			if n == 0 {
				term = v
			} else {
				term = fmt.Sprintf("(ite %s %s %s)", c, v, term)
			}
			n++
		}
		phiVals[phi] = g.define("phi."+phi.Name(), g.s.sortOf(phi.Type()), term)
	}
	if isHeader {
		g.loopHead(b, phiVals)
	} else {
		for phi, t := range phiVals {
			g.vals[phi] = t
		}
	}
	for _, ins := range b.Instrs {
		if _, ok := ins.(*ssa.Phi); ok {
			continue
		}
		g.instr(ins)
	}
	// terminator
	if len(b.Instrs) > 0 {
		switch t := b.Instrs[len(b.Instrs)-1].(type) {
		case *ssa.If:
			c := g.val(t.Cond)
			g.edgeCond[[2]int{b.Index, b.Succs[0].Index}] = g.define("edge", "Bool", fmt.Sprintf("(and %s %s)", g.pc, c))
			g.edgeCond[[2]int{b.Index, b.Succs[1].Index}] = g.define("edge", "Bool", fmt.Sprintf("(and %s (not %s))", g.pc, c))
		case *ssa.Jump:
			g.edgeCond[[2]int{b.Index, b.Succs[0].Index}] = g.pc
		case *ssa.Return:
			var res []string
			for _, r := range t.Results {
				res = append(res, g.val(r))
			}
			g.rets = append(g.rets, retRec{pc: g.pc, results: res, st: g.st.clone()})
		}
	}
	g.blockExit[b] = g.st.clone()
	// back edges leaving this block: the invariant of the target loop must be preserved
	for _, s := range b.Succs {
		key := [2]int{b.Index, s.Index}
		if !g.backEdge[key] {
			continue
		}
		ec := g.edgeCond[key]
		vals := map[*ssa.Phi]string{}
		for _, ins := range s.Instrs {
			phi, ok := ins.(*ssa.Phi)
			if !ok {
				break
			}
			for i, p := range s.Preds {
				if p == b {
					vals[phi] = g.valIn(phi.Edges[i], b)
				}
			}
		}
		savedPC := g.pc
		g.pc = ec
		env := g.loopEnv(s, vals, g.st)
		for i, inv := range g.loopInvs[s] {
			t, err := env.EvalBool(inv.Expr)
			if err != nil {
				g.unsupported("loop invariant: %v", err)
				continue
			}
			g.obligeAt("inv", g.loopSig[s]+":"+clauseLabel(inv, i)+"/pres", fmt.Sprintf("back edge from b%d", b.Index), t, inv.Src)
		}
		g.pc = savedPC
	}
}

// valIn: value of v as seen at the end of block p (constants and already-defined values)
func (g *vcgen) valIn(v ssa.Value, p *ssa.BasicBlock) string { return g.val(v) }

func (g *vcgen) loopHead(h *ssa.BasicBlock, phiInit map[*ssa.Phi]string) {
	sig := g.loopSig[h]
	if g.fc != nil {
		g.loopInvs[h] = g.fc.Loops[sig]
		if _, ok := g.fc.Loops[sig]; !ok && len(g.loopBody) == 1 && len(g.fc.Loops) == 1 {
			// the only loop of the function against the only loop contract: the condition text was edited
			for csig, inv := range g.fc.Loops {
				g.loopInvs[h] = inv
				g.loopSig[h] = csig // obligations keep the contract's name for the loop
				sig = csig
			}
		}
	}
	// 1. invariant holds on entry
	env := g.loopEnv(h, phiInit, g.st)
	for i, inv := range g.loopInvs[h] {
		t, err := env.EvalBool(inv.Expr)
		if err != nil {
			g.unsupported("loop invariant %s: %v", sig, err)
			continue
		}
		g.oblige("inv", sig+":"+clauseLabel(inv, i)+"/init", t, inv.Src)
	}
	// 2. havoc everything the loop may modify
	eff := newEffects()
	for b := range g.loopBody[h] {
		for _, ins := range b.Instrs {
			eff.add(g.eng.instrEffects(ins, g))
		}
	}
	if eff.All {
		g.havocAll()
	}
	var names []string
	for n := range eff.Vars {
		names = append(names, n)
	}
	sort.Strings(names)
	for _, n := range names {
		g.stateVar(n, eff.Vars[n](g.s))
		if locs, precise := eff.Locs[n]; precise && !eff.Whole[n] && g.locsLoopInvariant(h, locs) && strings.HasPrefix(g.varSort[n], "(Array Int ") {
			// written only at objects fixed before the loop: everything else keeps its value
			cur := g.get(g.st, n)
			seen := map[string]bool{}
			for _, lv := range locs {
				t := g.val(lv)
				if seen[t] {
					continue
				}
				seen[t] = true
				fv := g.freshConst("loopw", arrayElemSort(g.varSort[n]))
				cur = fmt.Sprintf("(store %s %s %s)", cur, t, fv)
			}
			g.set(n, cur)
			continue
		}
		g.havocNamed(n)
	}
	// old()-snapshots reset inside the loop (monitor re-acquisition): arbitrary at the loop head
	var onames []string
	for n := range eff.OldVars {
		onames = append(onames, n)
	}
	sort.Strings(onames)
	for _, n := range onames {
		g.stateVar(n, eff.OldVars[n](g.s))
		g.varSort["old:"+n] = g.varSort[n]
		g.st.m["old:"+n] = g.freshConst("old."+n, g.varSort[n])
	}
	phiVals := map[*ssa.Phi]string{}
	for _, ins := range h.Instrs {
		phi, ok := ins.(*ssa.Phi)
		if !ok {
			break
		}
		v := g.freshOfType("loop."+phi.Name(), phi.Type())
		phiVals[phi] = v
		g.vals[phi] = v
	}
	// 3. assume the invariant for an arbitrary iteration
	env = g.loopEnv(h, phiVals, g.st)
	for _, inv := range g.loopInvs[h] {
		t, err := env.EvalBool(inv.Expr)
		if err != nil {
			continue
		}
		g.assume(t)
	}
}

// ---- exit ----

func (g *vcgen) exit(fc *FuncContract, sig *types.Signature, args, binds []string) {
	if len(g.rets) == 0 {
		g.pc = "false"
		return
	}
	var conds []string
	var states []*State
	for _, r := range g.rets {
		conds = append(conds, r.pc)
		states = append(states, r.st)
	}
	g.pc = g.define("reach.exit", "Bool", "(or "+strings.Join(conds, " ")+" false)")
	g.st = g.mergeStates(conds, states)
	var results []string
	for k := 0; k < sig.Results().Len(); k++ {
		term := g.rets[len(g.rets)-1].results[k]
		for i := len(g.rets) - 2; i >= 0; i-- {
			term = fmt.Sprintf("(ite %s %s %s)", g.rets[i].pc, g.rets[i].results[k], term)
		}
		results = append(results, g.define("result", g.s.sortOf(sig.Results().At(k).Type()), term))
	}
	g.exitRes = results
	if fc.Flags["foreach"] != "" {
		g.foreachExit()
	}
	env := g.contractEnv(fc, g.fn, sig, args, binds, results, g.st, g.oldView(g.st))
	// parameters keep their entry values in postconditions (Go parameters are local copies)
	for i, e := range fc.Ensures {
		if g.eng.CurProp != "" && len(e.Label) > 4 && e.Label[0] == 'C' && e.Label[3] == ':' && e.Label[:3] != g.eng.CurProp {
			continue // a clause of another property's check (callers still use it: it is proved there)
		}
		t, err := env.EvalBool(e.Expr)
		if err != nil {
			g.unsupported("ensures: %v", err)
			continue
		}
		if e.Expr.Op == "bin" && e.Expr.Name == "==>" {
			if a, err := env.EvalBool(e.Expr.Args[0]); err == nil {
				g.cover("post:"+clauseLabel(e, i), a)
			}
		}
		g.oblige("post", clauseLabel(e, i), t, e.Src)
	}
	// "reachable [label] e": some path reaches the exit with e (a cover that is an obligation: unsat means the clause fails)
	for i, e := range fc.Reachable {
		if g.eng.CurProp != "" && len(e.Label) > 4 && e.Label[0] == 'C' && e.Label[3] == ':' && e.Label[:3] != g.eng.CurProp {
			continue
		}
		t, err := env.EvalBool(e.Expr)
		if err != nil {
			g.unsupported("reachable: %v", err)
			continue
		}
		ob := &Obligation{Name: g.u.Name + "/reach(" + clauseLabel(e, i) + ")", Class: "reach", Func: g.u.Name, Expect: "sat", Src: e.Src}
		ob.Parts = []Part{{Prefix: len(g.u.Items), Goal: fmt.Sprintf("(and %s %s)", g.pc, t)}}
		g.u.Obls = append(g.u.Obls, ob)
	}
	// "applies p": p was called exactly once and its results are returned; "returnsparam p": p itself is returned
	if g.fc != nil {
		if pn := strings.TrimSpace(g.fc.Flags["applies"]); pn != "" {
			cn := "G.applied." + pn
			g.stateVar(cn, "Int")
			g.oblige("applies", pn+"/once", fmt.Sprintf("(= %s (+ %s 1))", g.get(g.st, cn), g.get(g.old0, cn)), "the function parameter "+pn+" is called exactly once on every path")
			for i := 0; i < g.fn.Signature.Results().Len() && i < len(results); i++ {
				rn := fmt.Sprintf("G.appres.%s.%d", pn, i)
				if _, ok := g.varSort[rn]; ok {
					g.oblige("applies", fmt.Sprintf("%s/result%d", pn, i), fmt.Sprintf("(= %s %s)", results[i], g.get(g.st, rn)), "the result of "+pn+" is returned unchanged")
				} else {
					g.oblige("applies", fmt.Sprintf("%s/result%d", pn, i), "false", "the result of "+pn+" is returned unchanged (the parameter is never called here)")
				}
			}
		}
		if pn := strings.TrimSpace(g.fc.Flags["returnsparam"]); pn != "" {
			found := false
			for i, prm := range g.fn.Params {
				if prm.Name() == pn && len(results) > 0 {
					found = true
					g.oblige("returnsparam", pn, fmt.Sprintf("(= %s %s)", results[0], args[i]), "the function parameter "+pn+" is returned as it is")
				}
			}
			if !found {
				g.unsupported("returnsparam %s: no such parameter or no result", pn)
			}
		}
	}
	// a function that writes package variables must re-establish the package's global invariants
	if g.storesToGlobals() {
		for i, gi := range g.eng.DB.GlobalInvs[pkgPathOf(g.fn)] {
			t, err := env.EvalBool(gi.Expr)
			if err != nil {
				continue
			}
			g.oblige("globalinv", clauseLabel(gi, i), t, gi.Src)
		}
	}
	// objects of a type with an invariant that this function allocated or received must satisfy it on exit
	for i, p := range g.fn.Params {
		if ti := g.typeInvOf(p.Type()); ti != nil {
			if _, ok := p.Type().Underlying().(*types.Pointer); ok && g.storesToType(p.Type()) {
				for k, tm := range g.typeInvTerms(ti, args[i], p.Type(), g.st) {
					g.oblige("typeinv", fmt.Sprintf("%s:%d@%s", ti.Type, k, p.Name()), fmt.Sprintf("(=> (not (= %s 0)) %s)", args[i], tm), ti.Clauses[k].Src)
				}
			}
		}
	}
	for _, b := range g.fn.Blocks {
		for _, ins := range b.Instrs {
			al, ok := ins.(*ssa.Alloc)
			if !ok {
				continue
			}
			ti := g.typeInvOf(al.Type())
			ref, ok := g.vals[al]
			if !ok {
				continue
			}
			savedPC := g.pc
			g.pc = g.define("pc", "Bool", fmt.Sprintf("(and %s %s)", g.pc, g.reach[b]))
			if ti != nil {
				for k, tm := range g.typeInvTerms(ti, ref, al.Type(), g.st) {
					g.oblige("typeinv", fmt.Sprintf("%s:%d@new", ti.Type, k), tm, ti.Clauses[k].Src)
				}
			}
			// the by-value struct parts of the new object that have an invariant of their own
			if st, isS := al.Type().Underlying().(*types.Pointer).Elem().Underlying().(*types.Struct); isS {
				for fi := 0; fi < st.NumFields(); fi++ {
					f := st.Field(fi)
					if _, fs := f.Type().Underlying().(*types.Struct); !fs {
						continue
					}
					fpt := types.NewPointer(f.Type())
					if fti := g.typeInvOf(fpt); fti != nil {
						addr := g.emb(al.Type().Underlying().(*types.Pointer).Elem(), f.Name(), ref)
						for k, tm := range g.typeInvTerms(fti, addr, fpt, g.st) {
							g.oblige("typeinv", fmt.Sprintf("%s:%d@new.%s", fti.Type, k, f.Name()), tm, fti.Clauses[k].Src)
						}
					}
				}
			}
			g.pc = savedPC
		}
	}
}

func (g *vcgen) allocatesType(t types.Type) bool {
	for _, b := range g.fn.Blocks {
		for _, ins := range b.Instrs {
			if al, ok := ins.(*ssa.Alloc); ok && sameStruct(al.Type(), t) {
				return true
			}
		}
	}
	return false
}

func (g *vcgen) storesToType(t types.Type) bool {
	for _, b := range g.fn.Blocks {
		for _, ins := range b.Instrs {
			if st, ok := ins.(*ssa.Store); ok {
				if fa, ok := st.Addr.(*ssa.FieldAddr); ok && sameStruct(fa.X.Type(), t) {
					return true
				}
			}
			// an update of a map held in a field of the type (the invariant may speak about the map's contents)
			var mv ssa.Value
			switch x := ins.(type) {
			case *ssa.MapUpdate:
				mv = x.Map
			case *ssa.Call:
				if b, ok := x.Call.Value.(*ssa.Builtin); ok && b.Name() == "delete" && len(x.Call.Args) > 0 {
					mv = x.Call.Args[0]
				}
			}
			if ld, ok := mv.(*ssa.UnOp); ok && ld.Op == token.MUL {
				if fa, ok := ld.X.(*ssa.FieldAddr); ok && sameStruct(fa.X.Type(), t) {
					return true
				}
			}
		}
	}
	return false
}

// locsLoopInvariant: every location value is defined outside the loop (parameter, constant or in a dominating block)
func (g *vcgen) locsLoopInvariant(h *ssa.BasicBlock, locs []ssa.Value) bool {
	for _, v := range locs {
		switch x := v.(type) {
		case *ssa.Parameter, *ssa.FreeVar, *ssa.Const, *ssa.Global:
			continue
		case ssa.Instruction:
			if g.loopBody[h][x.Block()] {
				return false
			}
			if _, ok := g.vals[v]; !ok {
				return false
			}
		default:
			return false
		}
	}
	return true
}

func (g *vcgen) storesToGlobals() bool {
	for _, b := range g.fn.Blocks {
		for _, ins := range b.Instrs {
			if st, ok := ins.(*ssa.Store); ok {
				if _, ok := st.Addr.(*ssa.Global); ok {
					return true
				}
			}
		}
	}
	return false
}

// mayPrecede: instruction a may have been executed before instruction b is (control-flow reachability)
func mayPrecede(a, b ssa.Instruction) bool {
	ab, bb := a.Block(), b.Block()
	idx := func(blk *ssa.BasicBlock, x ssa.Instruction) int {
		for i, in := range blk.Instrs {
			if in == x {
				return i
			}
		}
		return -1
	}
	if ab == bb && idx(ab, a) < idx(bb, b) {
		return true
	}
	seen := map[*ssa.BasicBlock]bool{}
	var stack []*ssa.BasicBlock
	stack = append(stack, ab.Succs...)
	for len(stack) > 0 {
		n := stack[len(stack)-1]
		stack = stack[:len(stack)-1]
		if seen[n] {
			continue
		}
		seen[n] = true
		if n == bb {
			return true
		}
		stack = append(stack, n.Succs...)
	}
	return false
}
