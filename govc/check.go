package govc

import (
	"os"
	"path/filepath"
)

// LoadRepo loads the packages of the repository and all contracts.
func LoadRepo(repo string) (*Engine, error) {
	db := NewContractDB()
	if err := db.LoadRepoContracts(repo, ModPath); err != nil {
		return nil, err
	}
	spec := filepath.Join(filepath.Dir(os.Args[0]), "..", "contracts", "stdlib.spec")
	if _, err := os.Stat(spec); err != nil {
		spec = "/verif/contracts/stdlib.spec"
	}
	if _, err := os.Stat(spec); err == nil {
		if err := db.LoadFile(spec, "", true); err != nil {
			return nil, err
		}
	}
	eng, err := Load(repo, []string{"./cmd/...", "./lambda/..."})
	if err != nil {
		return nil, err
	}
	eng.DB = db
	return eng, nil
}

func CheckMain(args []string) int { return 2 }
