package govc

import (
	"golang.org/x/tools/go/ssa"
	"encoding/json"
	"fmt"
	"go/types"
	"os"
	"path/filepath"
	"sort"
	"strconv"
	"strings"
	"time"
)

var VerifDir = "/verif"

// LoadRepo loads the packages of the repository and all contracts.
func LoadRepo(repo string) (*Engine, error) {
	db := NewContractDB()
	spec := filepath.Join(VerifDir, "contracts", "stdlib.spec")
	if _, err := os.Stat(spec); err == nil {
		if err := db.LoadFile(spec, "", true); err != nil {
			return nil, err
		}
	}
	if err := db.LoadRepoContracts(repo, ModPath); err != nil {
		return nil, err
	}
	start := time.Now()
	eng, err := Load(repo, []string{"./cmd/...", "./lambda/..."})
	if err != nil {
		return nil, err
	}
	eng.LoadSeconds = time.Since(start).Seconds()
	eng.DB = db
	return eng, nil
}

type PropCfg struct {
	ID         string   `json:"id"`
	Functions  []string `json:"functions"`  // patterns over full function names ('*' = any run of characters)
	Exclude    []string `json:"exclude"`    // patterns removed again
	Lemmas     []string `json:"lemmas"`     // lemma name patterns
	Consts     []string `json:"consts"`     // const claim names
	Residue    []string `json:"residue"`    // what stays undecided (copied into evidence.assumptions)
	Technique  string   `json:"technique"`
	NoContract bool     `json:"no_contract"` // include matching functions without contract (zero-annotation sweep)
	Safety     bool     `json:"safety"`      // prove absence of panics (nil dereference, index, failed assertion, explicit panic) in every function of the set
	SafetyFunctions []string `json:"safety_functions"` // the same, for the functions of the set that match one of these patterns
}

func wildcard(pat, s string) bool {
	parts := strings.Split(pat, "*")
	if len(parts) == 1 {
		return pat == s
	}
	if !strings.HasPrefix(s, parts[0]) {
		return false
	}
	s = s[len(parts[0]):]
	for i := 1; i < len(parts)-1; i++ {
		k := strings.Index(s, parts[i])
		if k < 0 {
			return false
		}
		s = s[k+len(parts[i]):]
	}
	return strings.HasSuffix(s, parts[len(parts)-1])
}

func anyMatch(pats []string, s string) bool {
	for _, p := range pats {
		if wildcard(p, s) {
			return true
		}
	}
	return false
}

type finding struct {
	Kind       string // finding | fixed
	Property   string
	Obligation string
	Text       string
}

func loadFindings(path string) []finding {
	b, err := os.ReadFile(path)
	if err != nil {
		return nil
	}
	var out []finding
	for _, l := range strings.Split(string(b), "\n") {
		l = strings.TrimSpace(l)
		if l == "" || strings.HasPrefix(l, "#") {
			continue
		}
		var f finding
		switch {
		case strings.HasPrefix(l, "finding:"):
			f.Kind = "finding"
			l = strings.TrimSpace(strings.TrimPrefix(l, "finding:"))
		case strings.HasPrefix(l, "fixed:"):
			f.Kind = "fixed"
			l = strings.TrimSpace(strings.TrimPrefix(l, "fixed:"))
		default:
			continue
		}
		for _, tok := range strings.Fields(l) {
			if strings.HasPrefix(tok, "property=") {
				f.Property = strings.TrimPrefix(tok, "property=")
			}
		}
		if i := strings.Index(l, "obligation="); i >= 0 {
			rest := l[i+len("obligation="):]
			// obligation names may contain spaces inside parentheses; they end at " :: "
			if j := strings.Index(rest, " :: "); j >= 0 {
				f.Obligation = strings.TrimSpace(rest[:j])
				f.Text = strings.TrimSpace(rest[j+4:])
			} else {
				f.Obligation = strings.TrimSpace(rest)
			}
		}
		out = append(out, f)
	}
	return out
}

type evidence struct {
	PropertyID  string                 `json:"property_id"`
	Tier        string                 `json:"tier"`
	Seed        int                    `json:"seed"`
	Level       string                 `json:"level"`
	Coverage    map[string]interface{} `json:"coverage"`
	Assumptions []string               `json:"assumptions"`
	WallS       float64                `json:"wall_s"`
	Violations  int                    `json:"violations"`
}

type replayFile struct {
	Property   string            `json:"property"`
	Obligation string            `json:"obligation"`
	Function   string            `json:"function"`
	Clause     string            `json:"clause"`
	Site       string            `json:"site"`
	Status     string            `json:"solver_status"`
	Regression bool              `json:"was_discharged_in_baseline"`
	Model      map[string]string `json:"model"`
	Solver     string            `json:"solver_output"`
	SMTFile    string            `json:"smt_file"`
	ReplayPkg  string            `json:"replay_pkg,omitempty"`
	ReplayTest string            `json:"replay_test_source,omitempty"`
	ReplayOut  string            `json:"replay_output,omitempty"`
	Reproduced bool              `json:"reproduced_on_real_code"`
	RepoDir    string            `json:"repo_dir"`
}

func CheckMain(args []string) int {
	if len(args) > 0 && args[0] == "replay" {
		if len(args) < 2 {
			fmt.Fprintln(os.Stderr, "usage: check replay <file>")
			return 2
		}
		return replayMain(args[1])
	}
	if len(args) < 1 {
		fmt.Fprintln(os.Stderr, "usage: check <property> [--tier quick|thorough] [--repo dir] [--update-baseline]")
		return 2
	}
	id := args[0]
	tier := os.Getenv("VERIF_TIER")
	if tier == "" {
		tier = "quick"
	}
	repo := "/repo"
	update := false
	quiet := false
	noEvidence := false
	for i := 1; i < len(args); i++ {
		switch args[i] {
		case "--tier":
			i++
			tier = args[i]
		case "--repo":
			i++
			repo = args[i]
		case "--update-baseline":
			update = true
		case "--quiet":
			quiet = true
		case "--no-evidence":
			noEvidence = true
		}
	}
	seed, _ := strconv.Atoi(os.Getenv("VERIF_SEED"))
	r := RunCheck(id, tier, repo, seed, update, quiet, !noEvidence)
	return r.Exit
}

type CheckResult struct {
	Exit        int
	Failed      []string // names of failed (non-known) obligations
	Known       []string
	Obligations int
	Discharged  int
	Lines       []string
}

func loadProps() (map[string]*PropCfg, error) {
	b, err := os.ReadFile(filepath.Join(VerifDir, "props.json"))
	if err != nil {
		return nil, err
	}
	var list []*PropCfg
	if err := json.Unmarshal(b, &list); err != nil {
		return nil, err
	}
	m := map[string]*PropCfg{}
	for _, p := range list {
		m[p.ID] = p
	}
	return m, nil
}

func RunCheck(id, tier, repo string, seed int, updateBaseline, quiet, writeEvidence bool) CheckResult {
	start := time.Now()
	say := func(f string, a ...interface{}) {
		if !quiet {
			fmt.Printf(f+"\n", a...)
		}
	}
	props, err := loadProps()
	if err != nil {
		fmt.Fprintln(os.Stderr, "cannot load props.json:", err)
		return CheckResult{Exit: 2}
	}
	cfg, ok := props[id]
	if !ok {
		fmt.Fprintln(os.Stderr, "unknown property", id)
		return CheckResult{Exit: 2}
	}
	eng, err := LoadRepo(repo)
	if err != nil {
		fmt.Fprintf(os.Stderr, "UNDECIDED property=%s: %v\n", id, err)
		return CheckResult{Exit: 2}
	}
	// functions under contract for this property
	var names []string
	for name := range eng.Funcs {
		if anyMatch(cfg.Functions, name) && !anyMatch(cfg.Exclude, name) {
			if _, has := eng.DB.Funcs[name]; has || cfg.NoContract {
				names = append(names, name)
			}
		}
	}
	sort.Strings(names)
	// contracts whose function disappeared: the anchor is missing, nothing can be decided about it
	var missing []string
	for cname, fc := range eng.DB.Funcs {
		if fc.Assumed {
			continue
		}
		if anyMatch(cfg.Functions, cname) && !anyMatch(cfg.Exclude, cname) {
			if _, ok := eng.Funcs[cname]; !ok {
				missing = append(missing, cname)
			}
		}
	}
	sort.Strings(missing)
	if len(names) == 0 {
		emitf(quiet, "UNDECIDED property=%s: no function under contract matches\n", id)
		return CheckResult{Exit: 2}
	}
	var units []*Unit
	var devSafety []string // development aid: GOVC_SAFETY=pat,pat switches panic-freedom on for more functions
	if v := os.Getenv("GOVC_SAFETY"); v != "" {
		devSafety = strings.Split(v, ",")
	}
	genStart := time.Now()
	for _, n := range names {
		eng.CurProp = id
		if eng.NotAssumed == nil {
			eng.NotAssumed = map[string]bool{}
			for _, f := range loadFindings(filepath.Join(VerifDir, "known_findings.txt")) {
				if f.Kind == "finding" {
					eng.NotAssumed[f.Obligation] = true
				}
			}
		}
		eng.ForceSafety = cfg.Safety || anyMatch(cfg.SafetyFunctions, n) || devSafety != nil && anyMatch(devSafety, n)
		units = append(units, eng.GenUnit(eng.Funcs[n]))
		eng.ForceSafety = false
	}
	units = append(units, eng.constUnit(cfg)...)
	units = append(units, eng.immutableUnits(names)...)
	units = append(units, eng.lemmaUnits(cfg)...)
	genS := time.Since(genStart).Seconds()
	var unsupported []string
	for _, u := range units {
		for _, x := range u.Unsupported {
			unsupported = append(unsupported, u.Name+": "+x)
		}
	}
	if len(unsupported) > 0 {
		emitf(quiet, "UNDECIDED property=%s: outside the verified subset / contract does not type-check:\n  %s\n", id, strings.Join(unsupported, "\n  "))
		return CheckResult{Exit: 2}
	}
	tmo := 30 // generous: obligations that hold answer within a few seconds; the margin is for loaded machines
	allSolvers := false
	if tier == "thorough" {
		tmo = 60
		allSolvers = true
	}
	dir, err := os.MkdirTemp("", "govc-"+id+"-")
	if err != nil {
		fmt.Fprintln(os.Stderr, err)
		return CheckResult{Exit: 2}
	}
	defer os.RemoveAll(dir)
	solveStart := time.Now()
	results := SolveAll(units, dir, DefaultSolvers(tmo), 12, allSolvers)
	// Second chance for obligations no solver answered in time: a time-out is not a counterexample, and on a loaded machine
	// obligations that hold can exceed the limit. Each is solved again on its own (nothing else running) with four times the
	// limit; only what is still unanswered then counts as failed.
	var retried []string
	for i := range results {
		r := &results[i]
		if r.OK || r.Ob.Expect == "sat" || (r.Res.Status != "timeout" && r.Res.Status != "unknown") {
			continue
		}
		u2 := *r.U
		u2.Obls = []*Obligation{r.Ob}
		again := SolveAll([]*Unit{&u2}, dir, DefaultSolvers(tmo*4), 4, allSolvers)
		if len(again) == 1 {
			again[0].U = r.U
			again[0].Seconds += r.Seconds
			if again[0].OK {
				retried = append(retried, r.Ob.Name)
			}
			*r = again[0]
		}
	}
	solveWall := time.Since(solveStart).Seconds()

	// baseline and known findings
	basePath := filepath.Join(VerifDir, "baseline", id+".json")
	baseline := map[string]bool{}
	if b, err := os.ReadFile(basePath); err == nil {
		var l []string
		json.Unmarshal(b, &l)
		for _, n := range l {
			baseline[n] = true
		}
	}
	findings := loadFindings(filepath.Join(VerifDir, "known_findings.txt"))
	known := map[string]finding{}
	for _, f := range findings {
		if f.Kind == "finding" && f.Property == id {
			known[f.Obligation] = f
		}
	}

	res := CheckResult{}
	var failed []ObResult
	var knownHit []string
	var vacuityBad []string
	var vacuityOpen []string // reachability covers no solver could settle either way (satisfiability under quantified hypotheses)
	generated := map[string]bool{}
	solverTime := 0.0
	smtBytes := 0
	bySolver := map[string]int{}
	var focused []string // obligations with a part that only a focused query (fewer hypotheses) decided
	var okNames []string
	nParts := 0
	statusOf := map[string]string{}
	for _, r := range results {
		statusOf[r.Ob.Name] = r.Res.Status
	}
	for _, r := range results {
		generated[r.Ob.Name] = true
		solverTime += r.Seconds
		smtBytes += r.Bytes
		nParts += len(r.Ob.Parts)
		for s, n := range r.Solvers {
			if s != "" {
				bySolver[s] += n
				if strings.Contains(s, "+focus") {
					focused = append(focused, r.Ob.Name+" ("+s+")")
				}
			}
		}
		if r.Ob.Class == "vacuity" {
			if strings.Contains(r.Ob.Name, "/vacuity(before:") {
				continue // only the reference point for the matching "after:" cover
			}
			if strings.Contains(r.Ob.Name, "/vacuity(after:") {
				// the assumed postconditions of a call contradict the caller's state only if the call site itself was reachable
				before := strings.Replace(r.Ob.Name, "/vacuity(after:", "/vacuity(before:", 1)
				if r.Res.Status == "unsat" && statusOf[before] == "sat" {
					vacuityBad = append(vacuityBad, r.Ob.Name)
				}
				continue
			}
			if r.Res.Status == "unsat" {
				vacuityBad = append(vacuityBad, r.Ob.Name)
			} else if r.Res.Status != "sat" {
				vacuityOpen = append(vacuityOpen, r.Ob.Name)
			}
			continue
		}
		if r.Ob.Class == "reach" && r.Res.Status != "sat" && r.Res.Status != "unsat" {
			vacuityOpen = append(vacuityOpen, r.Ob.Name) // no model within the short limit: inconclusive, never a failure
			continue
		}
		if r.Res.Status == "disagree" {
			emitf(quiet, "UNDECIDED property=%s: solvers disagree on %s (%v)\n", id, r.Ob.Name, r.Res.All)
			res.Exit = 2
			continue
		}
		if _, isKnown := known[r.Ob.Name]; isKnown {
			if !r.OK {
				knownHit = append(knownHit, r.Ob.Name)
				continue
			}
			// a listed finding that no longer fails is simply discharged
		}
		res.Obligations++
		if r.OK {
			res.Discharged++
			okNames = append(okNames, r.Ob.Name)
		} else {
			failed = append(failed, r)
		}
	}
	sort.Strings(okNames)
	if updateBaseline {
		os.MkdirAll(filepath.Dir(basePath), 0o755)
		b, _ := json.MarshalIndent(okNames, "", " ")
		os.WriteFile(basePath, append(b, '\n'), 0o644)
		say("baseline written: %d obligations", len(okNames))
		for n := range generated {
			baseline[n] = true
		}
	}
	// anchors: post/inv/typeinv/const/lemma obligations of the baseline must be generated again
	var anchorsMissing []string
	for n := range baseline {
		if !generated[n] && (strings.Contains(n, "/post(") || strings.Contains(n, "/inv(") || strings.Contains(n, "/const(") || strings.Contains(n, "/lemma(") || strings.Contains(n, "/typeinv(") || strings.Contains(n, "/applies(") || strings.Contains(n, "/returnsparam(") || strings.Contains(n, "/chaninv(")) {
			anchorsMissing = append(anchorsMissing, n)
		}
	}
	sort.Strings(anchorsMissing)

	outDir := filepath.Join(VerifDir, "out", id)
	if repo == "/repo" {
		os.RemoveAll(outDir) // replay files of earlier runs are stale
	}
	os.MkdirAll(outDir, 0o755)
	for _, n := range knownHit {
		line := fmt.Sprintf("KNOWN-FINDING: property=%s %s :: %s", id, n, known[n].Text)
		emitf(quiet, "%s\n", line)
		res.Lines = append(res.Lines, line)
		res.Known = append(res.Known, n)
	}
	for _, r := range failed {
		rf := buildReplay(eng, id, r, baseline[r.Ob.Name], outDir, repo)
		suffix := ""
		if !rf.Reproduced {
			suffix = " no-failing-input-found"
		}
		path := filepath.Join(outDir, sanitizeFile(r.Ob.Name)+".json")
		b, _ := json.MarshalIndent(rf, "", " ")
		os.WriteFile(path, b, 0o644)
		line := fmt.Sprintf("VIOLATION property=%s replay=%s%s", id, path, suffix)
		emitf(quiet, "%s\n", line)
		say("  obligation %s [%s] clause: %s", r.Ob.Name, r.Res.Status, r.Ob.Src)
		res.Lines = append(res.Lines, line)
		res.Failed = append(res.Failed, r.Ob.Name)
	}
	if len(failed) > 0 {
		res.Exit = 1
	}
	if len(missing) > 0 && res.Exit == 0 {
		// the remaining functions were still verified above: a failed obligation there is reported as a violation first
		emitf(quiet, "UNDECIDED property=%s: functions under contract no longer exist: %s\n", id, strings.Join(missing, ", "))
		res.Exit = 2
	}
	if len(vacuityBad) > 0 && res.Exit == 0 {
		emitf(quiet, "UNDECIDED property=%s: vacuous preconditions or unreachable guards: %s\n", id, strings.Join(vacuityBad, ", "))
		res.Exit = 2
	}
	if len(anchorsMissing) > 0 && res.Exit == 0 {
		emitf(quiet, "UNDECIDED property=%s: baseline obligations no longer generated (anchor missing): %s\n", id, strings.Join(anchorsMissing, ", "))
		res.Exit = 2
	}
	if res.Obligations == 0 && res.Exit == 0 {
		emitf(quiet, "UNDECIDED property=%s: zero obligations generated\n", id)
		res.Exit = 2
	}

	// thorough tier: the must-fail corpus (mutants and seeded changes) is replayed on a scratch copy of the current
	// tree: a check that no longer notices one of them has lost sensitivity and must not report "holds"
	var corpus []MutantResult
	if tier == "thorough" && res.Exit == 0 && !quiet {
		var cerr error
		corpus, cerr = SelfTest(id, repo, false, "")
		if cerr != nil {
			fmt.Printf("UNDECIDED property=%s: must-fail corpus could not be run: %v\n", id, cerr)
			res.Exit = 2
		}
		var lost []string
		for _, m := range corpus {
			if m.Applied && !m.Killed {
				lost = append(lost, m.Name)
			}
		}
		if len(lost) > 0 {
			fmt.Printf("UNDECIDED property=%s: the check does not notice %d change(s) of its must-fail corpus any more: %s\n", id, len(lost), strings.Join(lost, ", "))
			res.Exit = 2
		}
	}

	// evidence
	if writeEvidence {
		var fnInfo []map[string]interface{}
		var assumptions []string
		seenA := map[string]bool{}
		addA := func(s string) {
			if !seenA[s] {
				seenA[s] = true
				assumptions = append(assumptions, s)
			}
		}
		for _, r := range cfg.Residue {
			addA("undecided residue: " + r)
		}
		nSafe := 0
		for _, u := range units {
			nob := 0
			for _, o := range u.Obls {
				if o.Class != "vacuity" {
					nob++
				}
			}
			fnInfo = append(fnInfo, map[string]interface{}{"function": u.Name, "ssa_blocks": u.Blocks, "ssa_instrs": u.Instrs, "obligations": nob, "panic_freedom_proved": u.Safety})
			if u.Safety {
				nSafe++
			}
			for _, a := range u.Assumptions {
				addA(a)
			}
			for _, w := range u.Warnings {
				addA("abstraction: " + u.Name + ": " + w)
			}
		}
		// contracts of callees that this property relies on but does not verify itself
		inSet := map[string]bool{}
		for _, n := range names {
			inSet[n] = true
		}
		usedElsewhere := map[string]bool{}
		for _, u := range units {
			for c := range u.UsedContracts {
				if !inSet[c] {
					usedElsewhere[c] = true
				}
			}
		}
		var ue []string
		for c := range usedElsewhere {
			ue = append(ue, c)
		}
		sort.Strings(ue)
		for _, c := range ue {
			where := "NOT verified by any check (assumed)"
			var by []string
			for pid, pc := range props {
				if anyMatch(pc.Functions, c) && !anyMatch(pc.Exclude, c) {
					by = append(by, pid)
				}
			}
			sort.Strings(by)
			if len(by) > 0 {
				where = "verified by check " + strings.Join(by, ", ")
			}
			addA("callee contract used modularly: " + c + " — " + where)
		}
		// preconditions of verified functions are proved only at call sites inside verified functions
		for _, n := range names {
			fn := eng.Funcs[n]
			if fn == nil {
				continue
			}
			fc := eng.ContractOf(fn)
			if fc == nil || len(fc.Requires) == 0 {
				continue
			}
			var outside []string
			for _, caller := range eng.AllFuncs {
				if caller.Blocks == nil || !eng.InModule(caller) {
					continue
				}
				cn := FullName(caller)
				verified := false
				for _, pc := range props {
					if anyMatch(pc.Functions, cn) && !anyMatch(pc.Exclude, cn) {
						verified = true
					}
				}
				if verified {
					continue
				}
				calls := false
				for _, b := range caller.Blocks {
					for _, ins := range b.Instrs {
						if ci, ok := ins.(ssa.CallInstruction); ok && ci.Common().StaticCallee() == fn {
							calls = true
						}
					}
				}
				if calls {
					outside = append(outside, shortName(cn))
				}
			}
			var reqs []string
			for _, r := range fc.Requires {
				reqs = append(reqs, r.Src)
			}
			if len(outside) > 0 {
				sort.Strings(outside)
				addA("precondition assumed, not proved, at callers outside every check: " + shortName(n) + " requires " + strings.Join(reqs, " && ") + " — callers: " + strings.Join(outside, ", "))
			} else if fn.Signature.Recv() != nil || fn.Object() != nil && fn.Object().Exported() {
				addA("entry precondition (callers through interfaces, function values or other programs are not checked): " + shortName(n) + " requires " + strings.Join(reqs, " && "))
			}
		}
		for _, a := range trustedAssumptions() {
			addA(a)
		}
		var samples []map[string]string
		for _, r := range results {
			if r.Ob.Class == "post" && len(samples) < 5 {
				samples = append(samples, map[string]string{"obligation": r.Ob.Name, "clause": r.Ob.Src, "status": r.Res.Status, "solver": r.Res.Solver,
					"goal": truncate(r.Ob.Parts[0].Goal, 600)})
			}
		}
		var failedNames []string
		for _, r := range failed {
			failedNames = append(failedNames, r.Ob.Name)
		}
		cov := map[string]interface{}{
			"obligations":             res.Obligations,
			"discharged":              res.Discharged,
			"checker_cmd":             fmt.Sprintf("/verif/check %s --tier %s", id, tier),
			"trusted_base":            trustedBase(),
			"functions_under_contract": fnInfo,
			"functions":               len(names),
			"functions_panic_freedom_proved": nSafe,
			"obligation_parts":        nParts,
			"solver_seconds_total":    round2(solverTime),
			"solver_wall_s":           round2(solveWall),
			"vcgen_s":                 round2(genS),
			"load_s":                  round2(eng.LoadSeconds),
			"smt_bytes":               smtBytes,
			"discharged_by_solver":    bySolver,
			"discharged_by_focused_query": focused,
			"discharged_only_with_the_long_time_limit": retried,
			"slowest_obligations":     slowest(results, 5),
			"vacuity_guards":          countVacuity(results),
			"vacuity_failed":          vacuityBad,
			"vacuity_inconclusive":    vacuityOpen,
			"known_findings_hit":      knownHit,
			"failed_obligations":      failedNames,
			"baseline_obligations":    len(baseline),
			"samples":                 samples,
			"technique":               cfg.Technique,
			"integers":                "Go integers are mathematical Ints with explicit wrap-around at the type's width on + - * and conversions (not treated as unbounded)",
			"contract_files":          eng.DB.Files,
			"must_fail_corpus":        corpusSummary(corpus, tier),
		}
		ev := evidence{PropertyID: id, Tier: tier, Seed: seed, Level: "proof", Coverage: cov, Assumptions: assumptions, WallS: round2(time.Since(start).Seconds()), Violations: len(failed)}
		b, _ := json.MarshalIndent(ev, "", " ")
		os.MkdirAll(filepath.Join(VerifDir, "evidence"), 0o755)
		os.WriteFile(filepath.Join(VerifDir, "evidence", id+".json"), append(b, '\n'), 0o644)
	}
	say("property %s: %d functions, %d obligations (%d parts), %d discharged, %d failed, %d known findings; load %.1fs gen %.1fs solve %.1fs",
		id, len(names), res.Obligations, nParts, res.Discharged, len(failed), len(knownHit), eng.LoadSeconds, genS, solveWall)
	return res
}

// emitf prints a verdict line unless this run is an inner run over a deliberately broken scratch copy
func emitf(quiet bool, f string, a ...interface{}) {
	if !quiet {
		fmt.Printf(f, a...)
	}
}

func corpusSummary(c []MutantResult, tier string) map[string]interface{} {
	if tier != "thorough" {
		return map[string]interface{}{"run": false, "note": "the must-fail corpus (mutants + seeded changes) is replayed in the thorough tier"}
	}
	n, killed, skipped := 0, 0, 0
	var names []string
	for _, m := range c {
		n++
		if !m.Applied {
			skipped++
		} else if m.Killed {
			killed++
		}
		names = append(names, m.Name)
	}
	return map[string]interface{}{"run": true, "changes": n, "detected": killed, "patch_did_not_apply": skipped, "names": names}
}

func round2(f float64) float64 { return float64(int(f*100+0.5)) / 100 }

func countVacuity(rs []ObResult) int {
	n := 0
	for _, r := range rs {
		if r.Ob.Class == "vacuity" {
			n++
		}
	}
	return n
}

func trustedBase() []string {
	return []string{
		"golang.org/x/tools/go/ssa v0.29.0 (translation of /repo's Go source to SSA)",
		"govc encoder (SSA -> SMT-LIB; /verif/govc)",
		"z3 4.8.12, z3 5.1.0, cvc5 1.0.3 (an obligation is discharged by the first solver answering unsat; thorough tier requires agreement)",
		"assumed contracts of library functions in /verif/contracts/stdlib.spec",
		"monitor meta-theorem: sync.Cond.Wait atomically releases the lock and parks; Broadcast wakes every parked goroutine",
		"closed-world interface dispatch over the production import closure of cmd/aws-lambda-rie",
	}
}

func trustedAssumptions() []string {
	return []string{
		"partial correctness: termination, deadlock freedom, fairness and wall-clock bounds are not proved",
		"sequential consistency for lock-protected data; postconditions over monitor-protected state of several objects assume no interference between the atomic sections of one call",
		"nil dereferences, index errors and failed type assertions are assumed absent in functions without 'safety on' (a panic is not a return, so postconditions say nothing about it)",
		"strings are modelled as byte sequences in the SMT string theory; float64 arithmetic is uninterpreted",
		"allocation never fails; no stack overflow; no slice is longer than 2^48 elements (address-space bound)",
		"type invariants (typeinv) follow visible-state semantics: proved at every allocation site and at the exit of every verified function that stores into the type, assumed for pointer parameters at entry, for the objects a function that neither allocates nor stores into the type hands to a verified callee, and (when they held before) after a call; NOT re-proved at call sites for objects reached through fields, so a function that breaks the invariant of an object it reaches through a field without receiving it as a parameter is not caught",
	}
}

// ---- constant claims ----

func (e *Engine) constUnit(cfg *PropCfg) []*Unit {
	var out []*Unit
	for _, cc := range e.DB.Consts {
		if !anyMatch(cfg.Consts, cc.Name) && !anyMatch(cfg.Consts, cc.Pkg+"."+cc.Name) {
			continue
		}
		u := &Unit{Name: shortName(cc.Pkg) + ".const", Sorts: newSorts(e), UsedContracts: map[string]bool{}}
		g := &vcgen{eng: e, u: u, s: u.Sorts, st: &State{m: map[string]string{}}, pc: "true", varSort: map[string]string{}, declared: map[string]bool{},
			embIDs: map[string]int{}, callOrd: map[string]int{}, freshObjs: map[string]bool{}}
		g.stateVar("G.alloc", "Int")
		env := &cenv{g: g, vars: map[string]cval{}, cur: g.st, ctx: "const " + cc.Name}
		if p, ok := e.AllPkgs[cc.Pkg]; ok {
			env.pkg = p.Types
		}
		t, err := env.EvalBool(cc.Expr)
		if err != nil {
			u.Unsupported = append(u.Unsupported, err.Error())
		} else {
			g.oblige("const", cc.Name, t, cc.Src)
		}
		out = append(out, u)
	}
	return out
}

// ---- immutable fields: a scan of every function of the module ----

func (e *Engine) immutableUnits(names []string) []*Unit {
	pkgs := map[string]bool{}
	for _, n := range names {
		if fn := e.Funcs[n]; fn != nil {
			pkgs[pkgPathOf(fn)] = true
		}
	}
	byPkg := map[string][]ImmutableDecl{}
	for _, d := range e.DB.Immutable {
		if pkgs[d.Pkg] {
			byPkg[d.Pkg] = append(byPkg[d.Pkg], d)
		}
	}
	var out []*Unit
	var pk []string
	for p := range byPkg {
		pk = append(pk, p)
	}
	sort.Strings(pk)
	for _, p := range pk {
		u := &Unit{Name: shortName(p) + ".immutable", Sorts: newSorts(e), UsedContracts: map[string]bool{}}
		g := &vcgen{eng: e, u: u, s: u.Sorts, st: &State{m: map[string]string{}}, pc: "true", varSort: map[string]string{}, declared: map[string]bool{},
			embIDs: map[string]int{}, callOrd: map[string]int{}, freshObjs: map[string]bool{}}
		for _, d := range byPkg[p] {
			var bad []string
			for _, fn := range e.AllFuncs {
				if fn.Blocks == nil || !e.InModule(fn) {
					continue
				}
				for _, b := range fn.Blocks {
					for _, ins := range b.Instrs {
						st, ok := ins.(*ssa.Store)
						if !ok {
							continue
						}
						fa, ok := st.Addr.(*ssa.FieldAddr)
						if !ok {
							continue
						}
						pt, ok := fa.X.Type().Underlying().(*types.Pointer)
						if !ok {
							continue
						}
						n := namedOf(pt.Elem())
						stt, isS := pt.Elem().Underlying().(*types.Struct)
						if n == nil || !isS || n.Obj().Pkg() == nil || n.Obj().Pkg().Path() != d.Pkg || n.Obj().Name() != d.Type || stt.Field(fa.Field).Name() != d.Field {
							continue
						}
						if _, fresh := fa.X.(*ssa.Alloc); fresh {
							continue // initialisation of an object this function has just allocated
						}
						bad = append(bad, shortName(FullName(fn)))
					}
				}
			}
			goal := "true"
			src := d.Src
			if len(bad) > 0 {
				sort.Strings(bad)
				goal = "false"
				src += " — stored to by " + strings.Join(bad, ", ")
			}
			g.oblige("immutable", d.Type+"."+d.Field, goal, src)
		}
		out = append(out, u)
	}
	return out
}

// ---- lemmas: closed formulas over integers/booleans, proved once ----

func (e *Engine) lemmaUnits(cfg *PropCfg) []*Unit {
	var out []*Unit
	for _, lm := range e.DB.Lemmas {
		if !anyMatch(cfg.Lemmas, lm.Name) {
			continue
		}
		u := &Unit{Name: shortName(lm.Pkg) + ".lemma", Sorts: newSorts(e), UsedContracts: map[string]bool{}}
		g := &vcgen{eng: e, u: u, s: u.Sorts, st: &State{m: map[string]string{}}, pc: "true", varSort: map[string]string{}, declared: map[string]bool{},
			embIDs: map[string]int{}, callOrd: map[string]int{}, freshObjs: map[string]bool{}}
		g.stateVar("G.alloc", "Int")
		env := &cenv{g: g, vars: map[string]cval{}, cur: g.st, ctx: "lemma " + lm.Name}
		if p, ok := e.AllPkgs[lm.Pkg]; ok {
			env.pkg = p.Types
		}
		t, err := env.EvalBool(lm.Expr)
		if err != nil {
			u.Unsupported = append(u.Unsupported, err.Error())
		} else {
			g.oblige("lemma", lm.Name, t, lm.Src)
		}
		out = append(out, u)
	}
	return out
}

// ---- replay ----

func parseModel(out string, wit []Wit) map[string]string {
	m := map[string]string{}
	i := strings.Index(out, "\n")
	if i < 0 {
		return m
	}
	body := strings.TrimSpace(out[i+1:])
	// body = ((term value) (term value) ...)
	vals := splitPairs(body)
	for k, v := range vals {
		if k < len(wit) {
			m[wit[k].Label] = v
		}
	}
	return m
}

// splitPairs extracts the value part of each (term value) pair of a get-value answer.
func splitPairs(s string) []string {
	var out []string
	s = strings.TrimSpace(s)
	if !strings.HasPrefix(s, "(") {
		return out
	}
	depth := 0
	start := -1
	for i := 0; i < len(s); i++ {
		switch s[i] {
		case '"':
			// skip string literal
			j := i + 1
			for j < len(s) {
				if s[j] == '"' {
					if j+1 < len(s) && s[j+1] == '"' {
						j += 2
						continue
					}
					break
				}
				j++
			}
			i = j
		case '|':
			j := strings.IndexByte(s[i+1:], '|')
			if j >= 0 {
				i += j + 1
			}
		case '(':
			depth++
			if depth == 2 {
				start = i
			}
		case ')':
			if depth == 2 && start >= 0 {
				pair := s[start+1 : i]
				out = append(out, pairValue(pair))
				start = -1
			}
			depth--
		}
	}
	return out
}

func pairValue(pair string) string {
	pair = strings.TrimSpace(pair)
	// the term is either |quoted|, an atom, or a parenthesised expression
	i := 0
	switch {
	case strings.HasPrefix(pair, "|"):
		i = strings.IndexByte(pair[1:], '|') + 2
	case strings.HasPrefix(pair, "("):
		d := 0
		for k := 0; k < len(pair); k++ {
			if pair[k] == '(' {
				d++
			} else if pair[k] == ')' {
				d--
				if d == 0 {
					i = k + 1
					break
				}
			}
		}
	default:
		i = strings.IndexAny(pair, " \t\n")
		if i < 0 {
			return ""
		}
	}
	v := strings.TrimSpace(pair[i:])
	// normalise (- 5) to -5
	if strings.HasPrefix(v, "(- ") && strings.HasSuffix(v, ")") {
		v = "-" + strings.TrimSpace(v[3:len(v)-1])
	}
	return v
}

func buildReplay(eng *Engine, id string, r ObResult, regression bool, outDir, repo string) *replayFile {
	rf := &replayFile{Property: id, Obligation: r.Ob.Name, Function: r.Ob.Func, Clause: r.Ob.Src, Status: r.Res.Status,
		Regression: regression, Solver: truncate(r.Res.Output, 20000), RepoDir: repo, Model: map[string]string{}}
	if r.FailPart >= 0 && r.FailPart < len(r.Ob.Parts) {
		part := r.Ob.Parts[r.FailPart]
		rf.Site = part.Site
		smt := filepath.Join(outDir, sanitizeFile(r.Ob.Name)+".smt2")
		os.WriteFile(smt, []byte(r.U.Script(r.Ob, r.FailPart)), 0o644)
		rf.SMTFile = smt
		if r.Res.Status == "sat" {
			rf.Model = parseModel(r.Res.Model, part.Witness)
		}
	}
	// a counterexample model is replayed through the function's template; without a model (timeout / unknown) the template
	// is still run: history templates drive a fixed scenario and need no model (one that does simply does not reproduce)
	runReplayTemplate(rf)
	return rf
}

// slowest: the n obligations with the largest summed solver time of their parts ("name: seconds")
func slowest(results []ObResult, n int) []string {
	type ns struct {
		name string
		s    float64
	}
	var l []ns
	for _, r := range results {
		if r.Ob.Expect == "sat" {
			continue
		}
		l = append(l, ns{r.Ob.Name, r.Seconds})
	}
	sort.Slice(l, func(i, j int) bool { return l[i].s > l[j].s })
	var out []string
	for i := 0; i < len(l) && i < n; i++ {
		out = append(out, fmt.Sprintf("%s: %.1fs", l[i].name, l[i].s))
	}
	return out
}
