package govc

import (
	"os"
	"fmt"
	"go/ast"
	"go/constant"
	"go/token"
	"go/types"
	"sort"
	"strings"

	"golang.org/x/tools/go/ssa"
)

// ---- sentinel errors and constant-initialised globals ----

type globalInit struct {
	sentinelID  int
	sentinelTag types.Type
	constant    *ssa.Const
}

func (e *Engine) globalInits() map[*ssa.Global]*globalInit {
	if e.ginits != nil {
		return e.ginits
	}
	e.ginits = map[*ssa.Global]*globalInit{}
	next := 1
	var fns []*ssa.Function
	for _, f := range e.AllFuncs {
		if f.Name() == "init" && f.Parent() == nil && f.Pkg != nil {
			fns = append(fns, f)
		}
	}
	sort.Slice(fns, func(i, j int) bool { return fns[i].Pkg.Pkg.Path() < fns[j].Pkg.Pkg.Path() })
	for _, f := range fns {
		for _, b := range f.Blocks {
			for _, ins := range b.Instrs {
				st, ok := ins.(*ssa.Store)
				if !ok {
					continue
				}
				gl, ok := st.Addr.(*ssa.Global)
				if !ok {
					continue
				}
				switch v := st.Val.(type) {
				case *ssa.Const:
					e.ginits[gl] = &globalInit{constant: v}
				case *ssa.MakeInterface:
					if c, ok := v.X.(*ssa.Call); ok {
						if fn := c.Common().StaticCallee(); fn != nil {
							n := fn.String()
							if n == "errors.New" || n == "fmt.Errorf" {
								e.ginits[gl] = &globalInit{sentinelID: next, sentinelTag: v.X.Type()}
								next++
							}
						}
					}
				case *ssa.Call:
					if fn := v.Common().StaticCallee(); fn != nil {
						n := fn.String()
						if n == "errors.New" || n == "fmt.Errorf" {
							e.ginits[gl] = &globalInit{sentinelID: next, sentinelTag: types.NewPointer(types.NewNamed(types.NewTypeName(token.NoPos, nil, "errorString", nil), types.NewStruct(nil, nil), nil))}
							next++
						}
					}
				}
			}
		}
	}
	return e.ginits
}

func (g *vcgen) globalFactsImpl(gl *ssa.Global, name string, elem types.Type) bool {
	gi := g.eng.globalInits()[gl]
	if gi == nil {
		return false
	}
	if gi.sentinelID > 0 {
		g.emit(fmt.Sprintf("(assert (= %s (mk-iface %d %d)))", name, g.eng.TagOf(gi.sentinelTag), gi.sentinelID))
		return true
	}
	if gi.constant != nil {
		g.emit(fmt.Sprintf("(assert (= %s %s))", name, g.s.constTerm(gi.constant.Value, gi.constant.Type())))
		return true
	}
	return false
}

// ---- monitors ----

func (g *vcgen) monitorOfType(t types.Type) *Monitor {
	if t == nil {
		return nil
	}
	if p, ok := t.Underlying().(*types.Pointer); ok {
		t = p.Elem()
	}
	n, ok := t.(*types.Named)
	if !ok || n.Obj().Pkg() == nil {
		return nil
	}
	return g.eng.DB.Monitors[n.Obj().Pkg().Path()+"."+n.Obj().Name()]
}

func (g *vcgen) heldVar(m *Monitor) string {
	name := "G.held." + m.Name
	g.stateVar(name, "(Array Int Bool)")
	return name
}

func (g *vcgen) bcastVar(m *Monitor) string {
	name := "G.bcast." + m.Name
	g.stateVar(name, "(Array Int Bool)")
	return name
}

func (g *vcgen) woldVar(m *Monitor) string {
	name := "G.wold." + m.Name
	g.stateVar(name, "(Array Int Bool)")
	return name
}

// pathChain walks back through loads and field addresses: v == root.f1.f2... It returns every
// (root, fields) decomposition, shortest field path first.
type pathCand struct {
	root   ssa.Value
	fields []string
}

func pathChain(v ssa.Value) []pathCand {
	var fields []string
	var out []pathCand
	cur := v
	for {
		switch x := cur.(type) {
		case *ssa.UnOp:
			if x.Op == token.MUL {
				if fa, isFA := x.X.(*ssa.FieldAddr); isFA {
					st := fa.X.Type().Underlying().(*types.Pointer).Elem().Underlying().(*types.Struct)
					fields = append([]string{st.Field(fa.Field).Name()}, fields...)
					out = append(out, pathCand{fa.X, append([]string(nil), fields...)})
					cur = fa.X
					continue
				}
			}
			return out
		case *ssa.FieldAddr:
			st := x.X.Type().Underlying().(*types.Pointer).Elem().Underlying().(*types.Struct)
			fields = append([]string{st.Field(x.Field).Name()}, fields...)
			out = append(out, pathCand{x.X, append([]string(nil), fields...)})
			cur = x.X
			continue
		case *ssa.MakeInterface:
			cur = x.X
			continue
		case *ssa.ChangeInterface:
			cur = x.X
			continue
		}
		return out
	}
}

func cexprPath(e *CExpr) (root string, fields []string) {
	switch e.Op {
	case "id":
		return e.Name, nil
	case "sel":
		r, fs := cexprPath(e.Args[0])
		return r, append(fs, e.Name)
	}
	return "", nil
}

// monitorFor finds the monitor whose lock (or cond) path matches the SSA value v; returns the object term.
func (g *vcgen) monitorFor(v ssa.Value, cond bool) (*Monitor, string) {
	mon, root := g.monitorForStatic(v, cond)
	if mon == nil {
		return nil, ""
	}
	return mon, g.val(root)
}

// monitorOfCall: the monitor a Lock/Unlock/Wait/Broadcast call operates on (nil if the call is none of these)
func (g *vcgen) monitorOfCall(c *ssa.CallCommon) *Monitor {
	if c.IsInvoke() {
		if m, _ := g.monitorForStatic(c.Value, false); m != nil && g.monitorOp(m, c.Method.Name()) != "" {
			return m
		}
		return nil
	}
	fn := c.StaticCallee()
	if fn == nil || len(c.Args) == 0 {
		return nil
	}
	switch fn.String() {
	case "(*sync.Mutex).Lock", "(*sync.RWMutex).Lock", "(*sync.RWMutex).RLock", "(*sync.Mutex).Unlock", "(*sync.RWMutex).Unlock", "(*sync.RWMutex).RUnlock":
		m, _ := g.monitorForStatic(c.Args[0], false)
		return m
	case "(*sync.Cond).Wait", "(*sync.Cond).Broadcast", "(*sync.Cond).Signal":
		m, _ := g.monitorForStatic(c.Args[0], true)
		return m
	}
	return nil
}

// monitorForStatic is monitorFor without evaluating the object term (usable before the value is defined)
func (g *vcgen) monitorForStatic(v ssa.Value, cond bool) (*Monitor, ssa.Value) {
	for _, pc := range pathChain(v) {
		mon := g.monitorOfType(pc.root.Type())
		if mon == nil {
			continue
		}
		pe := mon.LockPath
		if cond {
			pe = mon.CondPath
		}
		if pe == nil {
			continue
		}
		_, want := cexprPath(pe)
		if strings.Join(want, ".") == strings.Join(pc.fields, ".") {
			return mon, pc.root
		}
	}
	return nil, nil
}

// monitorOp classifies an interface method called on a monitor's lock object
func (g *vcgen) monitorOp(m *Monitor, method string) string {
	switch method {
	case "Lock", "RLock":
		return "lock"
	case "Unlock", "RUnlock":
		return "unlock"
	}
	for _, w := range m.WaitCalls {
		if w == method {
			return "wait"
		}
	}
	return ""
}

func (g *vcgen) monEnv(mon *Monitor, obj string, cur, old *State) *cenv {
	var pkg *types.Package
	var typ types.Type
	if p, ok := g.eng.AllPkgs[mon.Pkg]; ok {
		pkg = p.Types
		if tn, ok := pkg.Scope().Lookup(mon.Type).(*types.TypeName); ok {
			typ = types.NewPointer(tn.Type())
		}
	}
	return &cenv{g: g, vars: map[string]cval{mon.Recv: {term: obj, typ: typ, sort: "Int"}}, cur: cur, old: old, pkg: pkg, ctx: "monitor " + mon.Name}
}

func (g *vcgen) protectedArrs(mon *Monitor) []string {
	var out []string
	p := g.eng.AllPkgs[mon.Pkg]
	tn := p.Types.Scope().Lookup(mon.Type).(*types.TypeName)
	st := tn.Type().Underlying().(*types.Struct)
	for i := 0; i < st.NumFields(); i++ {
		for _, pf := range mon.Protects {
			if st.Field(i).Name() == pf {
				name, _ := g.fieldArr(tn.Type(), i)
				out = append(out, name)
			}
		}
	}
	return out
}

func (g *vcgen) monLock(mon *Monitor, obj string) {
	held := g.heldVar(mon)
	// other threads may have changed the protected fields: forget them, keep the invariant
	for _, arr := range g.protectedArrs(mon) {
		cur := g.get(g.st, arr)
		fv := g.freshConst("lk", arrayElemSort(g.varSort[arr]))
		g.addWitness(mon.Recv+"."+arr[strings.LastIndex(arr, ".")+1:]+"@lock", fv)
		g.set(arr, fmt.Sprintf("(store %s %s %s)", cur, obj, fv))
		// the section's pre-state (what old(...) refers to for protected fields) is the state at Lock
		g.setOld(arr, fmt.Sprintf("(store %s %s %s)", g.get(g.st, "old:"+arr), obj, fv))
	}
	g.assumeHeapTypes(mon, obj)
	g.havocOwned(mon, obj)
	env := g.monEnv(mon, obj, g.st, nil)
	for _, inv := range mon.Invariants {
		t, err := env.EvalBool(inv.Expr)
		if err != nil {
			g.unsupported("monitor invariant: %v", err)
			continue
		}
		g.assume(t)
	}
	g.set(held, fmt.Sprintf("(store %s %s true)", g.get(g.st, held), obj))
	g.set(g.bcastVar(mon), fmt.Sprintf("(store %s %s false)", g.get(g.st, g.bcastVar(mon)), obj))
	if mon.Waitcond != nil {
		w, err := env.EvalBool(mon.Waitcond)
		if err == nil {
			g.set(g.woldVar(mon), fmt.Sprintf("(store %s %s %s)", g.get(g.st, g.woldVar(mon)), obj, w))
		}
	}
}

// havocOwned: fields of objects reachable through a protected pointer field belong to the monitor as well
func (g *vcgen) havocOwned(mon *Monitor, obj string) {
	if len(mon.Owns) == 0 && len(mon.OwnsMaps) == 0 {
		return
	}
	p := g.eng.AllPkgs[mon.Pkg]
	tn := p.Types.Scope().Lookup(mon.Type).(*types.TypeName)
	st := tn.Type().Underlying().(*types.Struct)
	for i := 0; i < st.NumFields(); i++ {
		for _, mf := range mon.OwnsMaps {
			mt, ok := st.Field(i).Type().Underlying().(*types.Map)
			if st.Field(i).Name() != mf || !ok {
				continue
			}
			ref := g.define("ownedmap", "Int", g.loadFieldIn(g.st, obj, tn.Type(), i))
			has, val, ln := g.mapArrs(mt)
			for _, arr := range []string{has, val, ln} {
				fv := g.freshConst("ownm", arrayElemSort(g.varSort[arr]))
				g.set(arr, fmt.Sprintf("(store %s %s %s)", g.get(g.st, arr), ref, fv))
				g.setOld(arr, fmt.Sprintf("(store %s %s %s)", g.get(g.st, "old:"+arr), ref, fv))
			}
			g.assume(fmt.Sprintf("(>= (select %s %s) 0)", g.get(g.st, ln), ref))
		}
	}
	for i := 0; i < st.NumFields(); i++ {
		owned, ok := mon.Owns[st.Field(i).Name()]
		if !ok {
			continue
		}
		pt, ok := st.Field(i).Type().Underlying().(*types.Pointer)
		if !ok {
			continue
		}
		ref := g.define("owned", "Int", g.loadFieldIn(g.st, obj, tn.Type(), i))
		var walk func(base string, t types.Type, names []string, all bool, label string)
		walk = func(base string, t types.Type, names []string, all bool, label string) {
			s2, ok := t.Underlying().(*types.Struct)
			if !ok {
				return
			}
			for k := 0; k < s2.NumFields(); k++ {
				f := s2.Field(k)
				if !all {
					found := false
					for _, n := range names {
						if n == f.Name() {
							found = true
						}
					}
					if !found {
						continue
					}
				}
				if _, isS := f.Type().Underlying().(*types.Struct); isS && isDecomposedStruct(f.Type()) {
					walk(g.emb(t, f.Name(), base), f.Type(), nil, true, label+"."+f.Name())
					continue
				}
				arr, ft := g.fieldArr(t, k)
				fv := g.freshOfType("own", ft)
				g.addWitness(label+"."+f.Name()+"@lock", fv)
				g.set(arr, fmt.Sprintf("(store %s %s %s)", g.get(g.st, arr), base, fv))
				g.setOld(arr, fmt.Sprintf("(store %s %s %s)", g.get(g.st, "old:"+arr), base, fv))
			}
		}
		walk(ref, pt.Elem(), owned, false, mon.Recv+"."+st.Field(i).Name())
	}
}

// type facts for the protected fields just havocked
func (g *vcgen) assumeHeapTypes(mon *Monitor, obj string) {
	p := g.eng.AllPkgs[mon.Pkg]
	tn := p.Types.Scope().Lookup(mon.Type).(*types.TypeName)
	st := tn.Type().Underlying().(*types.Struct)
	for i := 0; i < st.NumFields(); i++ {
		for _, pf := range mon.Protects {
			if st.Field(i).Name() == pf {
				g.assumeType(g.loadFieldIn(g.st, obj, tn.Type(), i), st.Field(i).Type())
			}
		}
	}
}

func (g *vcgen) monUnlock(mon *Monitor, obj string, site string) {
	env := g.monEnv(mon, obj, g.st, g.oldView(g.st))
	for i, inv := range mon.Invariants {
		t, err := env.EvalBool(inv.Expr)
		if err != nil {
			continue
		}
		lbl := inv.Label
		if lbl == "" {
			lbl = fmt.Sprint(i)
		}
		g.obligeAt("monitor/inv", mon.Type+":"+lbl, site, t, inv.Src)
	}
	if env.old != nil {
		for i, gu := range mon.Guarantees {
			t, err := env.EvalBool(gu.Expr)
			if err != nil {
				g.unsupported("monitor guarantee: %v", err)
				continue
			}
			lbl := gu.Label
			if lbl == "" {
				lbl = fmt.Sprint(i)
			}
			g.obligeAt("monitor/guarantee", mon.Type+":"+lbl, site, t, gu.Src)
		}
	}
	if mon.Waitcond != nil {
		w, err := env.EvalBool(mon.Waitcond)
		if err == nil {
			wold := fmt.Sprintf("(select %s %s)", g.get(g.st, g.woldVar(mon)), obj)
			bc := fmt.Sprintf("(select %s %s)", g.get(g.st, g.bcastVar(mon)), obj)
			g.obligeAt("monitor/wake", mon.Type, site, fmt.Sprintf("(=> (and %s (not %s)) %s)", w, wold, bc),
				"a section that makes the wait condition true must Broadcast")
		}
	}
	held := g.heldVar(mon)
	g.set(held, fmt.Sprintf("(store %s %s false)", g.get(g.st, held), obj))
}

// ---- calls ----

func (g *vcgen) callSite(callee string) string {
	g.callOrd[callee]++
	if n := g.callOrd[callee]; n > 1 {
		return fmt.Sprintf("%s#%d", callee, n)
	}
	return callee
}

// call translates a call; returns result terms (one per result).
func (g *vcgen) call(v ssa.Value, c *ssa.CallCommon, deferred bool) []string {
	var args []string
	for _, a := range c.Args {
		args = append(args, g.val(a))
	}
	g.emitEvents(c, args, nil, false)
	res := g.call2(v, c, args)
	g.emitEvents(c, args, res, true)
	return res
}

func (g *vcgen) call2(v ssa.Value, c *ssa.CallCommon, args []string) []string {
	if c.IsInvoke() {
		return g.invoke(v, c, args)
	}
	if b, ok := c.Value.(*ssa.Builtin); ok {
		return g.builtin(v, b, c, args)
	}
	if fn := c.StaticCallee(); fn != nil {
		if mc, ok := c.Value.(*ssa.MakeClosure); ok {
			var binds []string
			for _, bv := range mc.Bindings {
				binds = append(binds, g.val(bv))
			}
			return g.applyFunc(v, fn, args, binds, c)
		}
		return g.applyFunc(v, fn, args, nil, c)
	}
	// dynamic call of a function value
	fv := g.val(c.Value)
	if par, ok := c.Value.(*ssa.Parameter); ok && g.fc != nil && flagHas(g.fc.Flags["pureparam"], par.Name()) {
		// a parameter declared pure: the call is an application of an uninterpreted function of (closure, arguments)
		sig := c.Signature()
		if sig.Results().Len() == 1 {
			return []string{g.applyTerm(sig, fv, args)}
		}
	}
	if par, ok := c.Value.(*ssa.Parameter); ok && g.fc != nil && g.fc.Flags["foreach"] != "" {
		if pn, _, ok := parseForeach(g.fc.Flags["foreach"]); ok && pn == par.Name() {
			return g.foreachParamCall(par, c, args)
		}
	}
	if mc, ok := g.closures[fv]; ok {
		var binds []string
		for _, bv := range mc.Bindings {
			binds = append(binds, g.val(bv))
		}
		return g.applyFunc(v, mc.Fn.(*ssa.Function), args, binds, c)
	}
	if par, ok := c.Value.(*ssa.Parameter); ok && g.fc != nil && flagHas(g.fc.Flags["applies"], par.Name()) {
		return g.applyParam(par, c.Signature())
	}
	g.nonNil(fv, origin(c.Value))
	if fc := g.eng.funcFieldContract(c.Value); fc != nil {
		return g.applyContract(fc, nil, c.Signature(), args, nil, fc.FullName())
	}
	if g.fc != nil && g.fc.Flags["extfunc"] != "" {
		if name := g.sourceNameOf(c.Value); name != "" && flagHas(g.fc.Flags["extfunc"], name) {
			g.noteAssumption("function value '" + name + "' in " + g.u.Name + " is declared to hold a library function (e.g. a context.CancelFunc): calling it has no effect on module state")
			return g.freshResults(c.Signature())
		}
	}
	if g.eng.libraryFuncValue(c.Value, 0) {
		g.noteAssumption("a function value returned by a library call (" + origin(c.Value) + ") is called: library code has no effect on module state; result arbitrary")
		return g.freshResults(c.Signature())
	}
	if fk := g.eng.libraryFuncField(c.Value); fk != "" {
		g.noteAssumption("dynamic call through field " + fk + ": every value stored there is the result of a library call (checked), so the call is a library call without effect on module state")
		return g.freshResults(c.Signature())
	}
	if targets, fk := g.eng.fieldFuncTargets(c.Value); len(targets) > 0 {
		eff := newEffects()
		var names []string
		for _, t := range targets {
			eff.add(g.eng.FuncEffects(t))
			names = append(names, shortName(FullName(t)))
		}
		g.noteAssumption("dynamic call through field " + fk + ": closed world over the stores to that field (" + strings.Join(names, ", ") + "); write sets havocked, result arbitrary")
		g.havocEffectsOf(eff, "field "+fk)
		return g.freshResults(c.Signature())
	}
	g.warn("dynamic call through %s: all state havocked", origin(c.Value))
	g.havocAll()
	return g.freshResults(c.Signature())
}

func (g *vcgen) freshResults(sig *types.Signature) []string {
	var out []string
	for i := 0; i < sig.Results().Len(); i++ {
		out = append(out, g.freshOfType("res", sig.Results().At(i).Type()))
	}
	return out
}

// beginCall fixes the ghost clock value at the start of a call whose events are being forgotten
func (g *vcgen) beginCall() func() {
	if g.clockFloor != "" {
		return func() {}
	}
	g.stateVar("G.now", "Int")
	g.clockFloor = g.get(g.st, "G.now")
	return func() { g.clockFloor = "" }
}

func (g *vcgen) havocAll() {
	defer g.beginCall()()
	var names []string
	for n := range g.varSort {
		names = append(names, n)
	}
	sort.Strings(names)
	events := map[string]bool{}
	for _, n := range names {
		for _, pre := range []string{"G.cnt.", "G.first.", "G.last."} {
			if strings.HasPrefix(n, pre) {
				events[strings.TrimPrefix(n, pre)] = true
			}
		}
	}
	var evs []string
	for e := range events {
		evs = append(evs, e)
	}
	sort.Strings(evs)
	for _, e := range evs {
		g.havocEvent(e)
	}
	for _, n := range names {
		if strings.HasPrefix(n, "G.cnt.") || strings.HasPrefix(n, "G.first.") || strings.HasPrefix(n, "G.last.") || strings.HasPrefix(n, "G.ret.") {
			continue
		}
		// monitor bookkeeping, defer flags and range iterators are local to this activation
		if strings.HasPrefix(n, "G.held.") || strings.HasPrefix(n, "G.bcast.") || strings.HasPrefix(n, "G.wold.") || strings.HasPrefix(n, "G.armed.") || strings.HasPrefix(n, "G.visited.") || strings.HasPrefix(n, "old:") || strings.HasPrefix(n, "G.applied.") || strings.HasPrefix(n, "G.appres.") || n == feCalls {
			continue
		}
		if strings.HasPrefix(n, "G.fret.") {
			// the result of the first occurrence during this call: only open while no occurrence has happened yet
			ev := strings.TrimPrefix(n, "G.fret.")
			cur := g.get(g.st, n)
			fv := g.freshConst(n, g.varSort[n])
			g.set(n, fmt.Sprintf("(ite (= %s %s) %s %s)", g.get(g.st, "G.cnt."+ev), g.get(g.old0, "G.cnt."+ev), fv, cur))
			continue
		}
		g.havocNamed(n)
	}
}

// havocEvent forgets the ghost record of one event across a call that may emit it
func (g *vcgen) havocEvent(ev string) {
	if g.havockedEvents != nil {
		g.havockedEvents[ev] = true
	}
	g.eventVars(ev)
	for _, e2 := range g.eng.sinceOf(ev) {
		// occurrences of S inside the callee move the snapshot of since(E, S) forward by an unknown amount
		sn := snapVar(e2, ev)
		g.stateVar(sn, "Int")
		old := g.get(g.st, sn)
		nv := g.havocVar(sn)
		g.assume(fmt.Sprintf("(>= %s %s)", nv, old))
	}
	cntBefore := g.get(g.st, "G.cnt."+ev)
	g.havocNamed("G.first." + ev) // uses the counter and the clock as they are before the call
	g.havocNamed("G.cnt." + ev)
	g.havocNamed("G.last." + ev)
	g.havocNamed("G.now")
	// time stamps never run ahead of the ghost clock
	g.assume(fmt.Sprintf("(and (<= %s %s) (<= %s %s))", g.get(g.st, "G.last."+ev), g.get(g.st, "G.now"), g.get(g.st, "G.first."+ev), g.get(g.st, "G.now")))
	// the recorded arguments / result of the last occurrence only change if there was an occurrence
	same := fmt.Sprintf("(= %s %s)", g.get(g.st, "G.cnt."+ev), cntBefore)
	keep := func(n string) {
		old := g.get(g.st, n)
		nv := g.havocVar(n)
		g.st.m[n] = g.define(n, g.varSort[n], fmt.Sprintf("(ite %s %s %s)", same, old, nv))
	}
	if _, ok := g.varSort["G.ret."+ev]; ok {
		keep("G.ret." + ev)
	}
	var argNames []string
	for n := range g.varSort {
		if strings.HasPrefix(n, "G.arg."+ev+".") {
			argNames = append(argNames, n)
		}
	}
	sort.Strings(argNames)
	for _, n := range argNames {
		keep(n)
	}
	g.havocNamed("G.now")
}

func (g *vcgen) havocNamed(n string) {
	if _, ok := g.varSort[n]; !ok {
		return // never used by this function: its base symbol stands for any value anyway, but a later first use must not see the pre-call value
	}
	switch {
	case n == "G.alloc":
		old := g.get(g.st, n)
		nv := g.havocVar(n)
		g.assume(fmt.Sprintf("(>= %s %s)", nv, old))
	case n == "G.now" || strings.HasPrefix(n, "G.cnt."):
		old := g.get(g.st, n)
		nv := g.havocVar(n)
		g.assume(fmt.Sprintf("(>= %s %s)", nv, old))
	case strings.HasPrefix(n, "G.first."):
		// occurrences inside a callee come after everything recorded so far, and only matter if none happened yet
		ev := strings.TrimPrefix(n, "G.first.")
		g.stateVar("G.now", "Int")
		cur := g.get(g.st, n)
		fv := g.freshConst(n, "Int")
		floor := g.get(g.st, "G.now")
		if g.clockFloor != "" {
			floor = g.clockFloor // several events forgotten across one call: all of them may come right after the call started
		}
		g.assume(fmt.Sprintf("(> %s %s)", fv, floor))
		g.set(n, fmt.Sprintf("(ite (= %s %s) %s %s)", g.get(g.st, "G.cnt."+ev), g.get(g.old0, "G.cnt."+ev), fv, cur))
	case strings.HasPrefix(n, "G.last."):
		ev := strings.TrimPrefix(n, "G.last.")
		_ = ev
		old := g.get(g.st, n)
		nv := g.havocVar(n)
		g.assume(fmt.Sprintf("(>= %s %s)", nv, old))
	default:
		old := g.get(g.st, n)
		nv := g.havocVar(n)
		// local variables captured only by this function's own closures cannot be reached by other code; a closure of
		// this function may write them unless they are assigned exactly once (stable)
		var keep []string
		if strings.HasPrefix(n, "P.") && strings.HasPrefix(g.varSort[n], "(Array Int ") {
			for _, c := range g.localCells {
				if !g.inClosureCall || g.stableCells[c] {
					keep = append(keep, c)
				}
			}
		}
		for _, c := range g.localFields[n] {
			if !g.inClosureCall || g.stableCells[c] {
				keep = append(keep, c)
			}
		}
		if len(keep) > 0 {
			term := nv
			for _, c := range keep {
				term = fmt.Sprintf("(store %s %s (select %s %s))", term, c, old, c)
			}
			g.st.m[n] = g.define(n, g.varSort[n], term)
		}
	}
}

func (g *vcgen) havocEffects(eff *Effects) { g.havocEffectsOf(eff, "callee") }

func (g *vcgen) havocEffectsOf(eff *Effects, who string) {
	defer g.beginCall()()
	if eff.All {
		if g.frameActive() {
			g.oblige("frame", "call of "+who, "false", who+" has no contract and may write anything (dynamic call inside); the caller's modifies clause cannot be checked")
		}
		g.havocAll()
		return
	}
	if g.frameActive() {
		var bad []string
		for n := range eff.Vars {
			if n == "G.alloc" || n == "G.now" || strings.HasPrefix(n, "G.first.") || strings.HasPrefix(n, "G.last.") || strings.HasPrefix(n, "G.ret.") || strings.HasPrefix(n, "G.cnt.") || strings.HasPrefix(n, "G.arg.") || strings.HasPrefix(n, "G.fret.") {
				continue // ghost events are a record of what happened, never part of a frame
			}
			if !g.frameAllowsVar(n) {
				bad = append(bad, n)
			}
		}
		if len(bad) > 0 {
			sort.Strings(bad)
			g.oblige("frame", "call of "+who, "false", who+" has no frame contract and may write "+strings.Join(bad, ", "))
		}
	}
	g.stateVar("G.alloc", "Int")
	g.havocNamed("G.alloc")
	var names []string
	for n := range eff.Vars {
		names = append(names, n)
	}
	sort.Strings(names)
	doneEv := map[string]bool{}
	for _, n := range names {
		if n == "G.alloc" {
			continue
		}
		isEv := false
		for _, pre := range []string{"G.cnt.", "G.first.", "G.last."} {
			if strings.HasPrefix(n, pre) {
				isEv = true
				if ev := strings.TrimPrefix(n, pre); !doneEv[ev] {
					doneEv[ev] = true
					g.havocEvent(ev)
				}
			}
		}
		if isEv {
			continue
		}
		// make sure the variable exists so that later reads see the post-call version
		g.stateVar(n, eff.Vars[n](g.s))
		g.havocNamed(n)
	}
}

// special library functions
func (g *vcgen) special(v ssa.Value, fn *ssa.Function, args []string, c *ssa.CallCommon) ([]string, bool) {
	name := fn.String()
	pkg := pkgPathOf(fn)
	switch name {
	case "(*sync.Mutex).Lock", "(*sync.RWMutex).Lock", "(*sync.RWMutex).RLock":
		if gl, ok := c.Args[0].(*ssa.Global); ok && g.eng.isGlobalLock(gl) {
			g.stateVar(globalHeldVar(gl), "Bool")
			g.set(globalHeldVar(gl), "true")
			// what the lock protects may have been changed by other holders
			for _, d := range g.eng.DB.GlobalLocks {
				if d.Pkg == gl.Pkg.Pkg.Path() && d.Lock == gl.Name() {
					if pv := gl.Pkg.Var(d.Var); pv != nil {
						vn := g.globalVarName(pv)
						g.stateVar(vn, g.s.sortOf(pv.Type().Underlying().(*types.Pointer).Elem()))
						g.havocNamed(vn)
					}
				}
			}
			return nil, true
		}
		if mon, obj := g.monitorFor(c.Args[0], false); mon != nil {
			g.monLock(mon, obj)
		} else {
			g.warn("lock on %s is not a declared monitor", origin(c.Args[0]))
		}
		return nil, true
	case "(*sync.Mutex).Unlock", "(*sync.RWMutex).Unlock", "(*sync.RWMutex).RUnlock":
		if gl, ok := c.Args[0].(*ssa.Global); ok && g.eng.isGlobalLock(gl) {
			g.stateVar(globalHeldVar(gl), "Bool")
			g.set(globalHeldVar(gl), "false")
			return nil, true
		}
		if mon, obj := g.monitorFor(c.Args[0], false); mon != nil {
			g.monUnlock(mon, obj, g.callSite("Unlock"))
		}
		return nil, true
	case "(*sync.Cond).Wait":
		if mon, obj := g.monitorFor(c.Args[0], true); mon != nil {
			if mon.Waitcond != nil {
				// a thread may park only while its wait condition is false (otherwise nobody is obliged to wake it)
				if w, err := g.monEnv(mon, obj, g.st, nil).EvalBool(mon.Waitcond); err == nil {
					g.obligeAt("monitor/park", mon.Type, g.callSite("Wait"), "(not "+w+")", "Wait() is only called while the wait condition is false")
				}
			}
			g.monUnlock(mon, obj, g.callSite("Wait"))
			g.monLock(mon, obj)
		} else {
			g.warn("Wait on %s is not a declared monitor condition", origin(c.Args[0]))
		}
		return nil, true
	case "(*sync.Cond).Broadcast":
		if mon, obj := g.monitorFor(c.Args[0], true); mon != nil {
			bv := g.bcastVar(mon)
			g.set(bv, fmt.Sprintf("(store %s %s true)", g.get(g.st, bv), obj))
		}
		return nil, true
	case "(*sync.Cond).Signal":
		// wakes at most one waiter: does not satisfy the wake-up obligation
		return nil, true
	}
	switch name {
	case "regexp.MatchString":
		// constant pattern: exact RE2 semantics through the SMT theory of regular languages
		if pc, ok := c.Args[0].(*ssa.Const); ok && pc.Value != nil {
			re, err := regexToSMT(constant.StringVal(pc.Value), false)
			if err != nil {
				g.unsupported("regexp pattern %q: %v", constant.StringVal(pc.Value), err)
				return g.freshResults(fn.Signature), true
			}
			g.noteAssumption("regexp.MatchString with the constant pattern " + pc.Value.ExactString() + " is modelled by structural translation of its regexp/syntax AST to an SMT regular language (unanchored match); strings are byte sequences")
			return []string{fmt.Sprintf("(str.in_re %s %s)", args[1], re), "iface-nil"}, true
		}
	case "strings.HasPrefix":
		return []string{fmt.Sprintf("(str.prefixof %s %s)", args[1], args[0])}, true
	case "strings.HasSuffix":
		return []string{fmt.Sprintf("(str.suffixof %s %s)", args[1], args[0])}, true
	case "strings.Contains":
		return []string{fmt.Sprintf("(str.contains %s %s)", args[0], args[1])}, true
	}
	if pkg == "github.com/sirupsen/logrus" {
		n := fn.Name()
		if strings.HasPrefix(n, "Panic") || strings.HasPrefix(n, "Fatal") {
			if g.safety {
				g.obligeAt("safe/unreachable", "log."+n, g.callSite("log."+n), "false", "log."+n+" terminates the process or panics")
			}
			g.assume("false")
			return g.freshResults(fn.Signature), true
		}
		return g.freshResults(fn.Signature), true
	}
	if name == "os.Exit" {
		if g.safety {
			g.obligeAt("safe/unreachable", "os.Exit", g.callSite("os.Exit"), "false", "os.Exit")
		}
		g.assume("false")
		return nil, true
	}
	return nil, false
}

func (g *vcgen) applyFunc(v ssa.Value, fn *ssa.Function, args []string, binds []string, c *ssa.CallCommon) []string {
	if c != nil {
		saved := g.curCall
		g.curCall = c
		defer func() { g.curCall = saved }()
	}
	if fn.Parent() == g.fn && len(binds) > 0 {
		// one of this function's own closures: it may write the variables it captured
		g.inClosureCall = true
		defer func() { g.inClosureCall = false }()
	}
	if res, ok := g.special(v, fn, args, c); ok {
		return res
	}
	if g.safety && fn.Signature.Recv() != nil && len(args) > 0 && fn.Blocks != nil && g.eng.InModule(fn) {
		if _, isPtr := fn.Signature.Recv().Type().Underlying().(*types.Pointer); isPtr {
			g.obligeAt("safe/nil", "receiver of "+shortName(FullName(fn)), g.callSite("recv "+shortName(FullName(fn))), fmt.Sprintf("(not (= %s 0))", args[0]), "method call on a nil receiver")
		}
	}
	if fc := g.eng.ContractOf(fn); fc != nil {
		if fc.Flags["applies"] != "" && c != nil {
			return g.applyApplier(fc, fn, args, binds, c)
		}
		if fc.Flags["foreach"] != "" && c != nil {
			return g.applyForeach(fc, fn, args, binds, c)
		}
		return g.applyContract(fc, fn, fn.Signature, args, binds, FullName(fn))
	}
	// promoted-method wrapper: apply the contract of the embedded type's method
	if fn.Synthetic != "" && strings.HasPrefix(fn.Synthetic, "wrapper for") {
		if res, ok := g.applyWrapper(fn, args); ok {
			return res
		}
	}
	if (fn.Blocks == nil || !g.eng.InModule(fn)) && c != nil {
		for _, a := range c.Args {
			if mc := g.originClosure(a); mc != nil {
				g.closureHandedOver(mc, fn.String())
			}
		}
	}
	if fn.Blocks == nil || !g.eng.InModule(fn) {
		// library function without an assumed contract
		if !isNoEffectExtern(fn) {
			g.havocEffects(g.eng.externEffects(fn, g.s))
			g.noteAssumption("library call " + fn.String() + ": may modify only the direct pointees of its pointer arguments; result arbitrary")
		}
		return g.freshResults(fn.Signature)
	}
	if res, ok := g.inlineCall(fn, args); ok {
		return res
	}
	g.havocEffectsOf(g.callSiteEffects(fn, c), shortName(FullName(fn)))
	g.noteUncontracted(FullName(fn))
	return g.freshResults(fn.Signature)
}

// ---- functions that apply a function parameter exactly once ("applies p") ----
// The contract flag "applies p" on F says: F calls its function parameter p exactly once and returns p's results;
// whatever else F does stays within F's own frame. F's unit proves it (applyParam below counts the calls and
// records the results; unit exit adds the obligations). A caller that passes a closure it created itself then
// reasons with that closure's contract in place of the call, with F's own frame forgotten before and after.
// "returnsparam p" says F returns p itself (r0 == p): used to see through wrappers such as WithErrorCause.

func (g *vcgen) applyParam(par *ssa.Parameter, sig *types.Signature) []string {
	cn := "G.applied." + par.Name()
	g.stateVar(cn, "Int")
	g.set(cn, fmt.Sprintf("(+ %s 1)", g.get(g.st, cn)))
	g.havocAll() // the function passed in may do anything
	res := g.freshResults(sig)
	for i, r := range res {
		rn := fmt.Sprintf("G.appres.%s.%d", par.Name(), i)
		g.stateVar(rn, g.s.sortOf(sig.Results().At(i).Type()))
		g.set(rn, r)
	}
	return res
}

// originClosure: the closure (created in this function) that value v is, seen through calls that return their parameter
func (g *vcgen) originClosure(v ssa.Value) *ssa.MakeClosure {
	switch x := v.(type) {
	case *ssa.MakeClosure:
		return x
	case *ssa.ChangeType:
		return g.originClosure(x.X)
	case *ssa.Call:
		c := x.Common()
		var targets []*ssa.Function
		if c.IsInvoke() {
			if !closedWorld(c.Value.Type()) {
				return nil
			}
			for _, t := range g.eng.Implementers(c.Value.Type().Underlying().(*types.Interface), typeName(c.Value.Type())) {
				if m := g.eng.MethodOf(t, c.Method.Name(), c.Method.Pkg()); m != nil {
					targets = append(targets, m)
				}
			}
		} else if fn := c.StaticCallee(); fn != nil {
			targets = []*ssa.Function{fn}
		}
		if len(targets) == 0 {
			return nil
		}
		var arg ssa.Value
		for _, t := range targets {
			fc := g.eng.ContractOf(t)
			if fc == nil || fc.Flags["returnsparam"] == "" {
				return nil
			}
			idx := -1
			for i, p := range t.Params {
				if p.Name() == strings.TrimSpace(fc.Flags["returnsparam"]) {
					idx = i
				}
			}
			if c.IsInvoke() {
				idx--
			}
			if idx < 0 || idx >= len(c.Args) {
				return nil
			}
			if arg != nil && arg != c.Args[idx] {
				return nil
			}
			arg = c.Args[idx]
			g.u.UsedContracts[FullName(t)] = true
		}
		return g.originClosure(arg)
	}
	return nil
}

func (g *vcgen) applyApplier(fc *FuncContract, fn *ssa.Function, args, binds []string, c *ssa.CallCommon) []string {
	pname := strings.TrimSpace(fc.Flags["applies"])
	idx := -1
	for i, p := range fn.Params {
		if p.Name() == pname {
			idx = i
		}
	}
	aidx := idx
	if c.IsInvoke() {
		aidx--
	}
	name := FullName(fn)
	if idx < 0 || aidx < 0 || aidx >= len(c.Args) {
		g.unsupported("applies %s on %s: no such parameter", pname, name)
		return g.freshResults(fn.Signature)
	}
	// F's own part: preconditions, frame (before)
	own := *fc
	own.Ensures = nil
	g.skipArgClosures = true // the function passed in is accounted for separately, by its own contract
	g.applyContract(&own, fn, fn.Signature, args, binds, name)
	g.skipArgClosures = false
	psig := fn.Params[idx].Type().Underlying().(*types.Signature)
	var res []string
	av := c.Args[aidx]
	if par, ok := av.(*ssa.Parameter); ok && g.fc != nil && flagHas(g.fc.Flags["applies"], par.Name()) {
		// forwarding our own applied parameter
		res = g.applyParam(par, psig)
	} else if mc := g.originClosure(av); mc != nil {
		var cb []string
		for _, bv := range mc.Bindings {
			cb = append(cb, g.val(bv))
		}
		var cargs []string
		for i := 0; i < psig.Params().Len(); i++ {
			cargs = append(cargs, g.freshOfType("cbarg", psig.Params().At(i).Type()))
		}
		res = g.applyFunc(nil, mc.Fn.(*ssa.Function), cargs, cb, nil)
	} else {
		g.warn("%s applies a function value of unknown origin (%s): all state havocked", shortName(name), origin(av))
		g.havocAll()
		res = g.freshResults(psig)
	}
	// F's own frame again (after)
	own.Requires = nil
	g.skipArgClosures = true
	g.applyContract(&own, fn, fn.Signature, args, binds, name)
	g.skipArgClosures = false
	if fn.Signature.Results().Len() == len(res) {
		return res
	}
	return g.freshResults(fn.Signature)
}

// callSiteEffects: the summary of fn plus the effects of the closures passed for its call-only function parameters
func (g *vcgen) callSiteEffects(fn *ssa.Function, c *ssa.CallCommon) *Effects {
	base := g.eng.FuncEffects(fn)
	if c == nil {
		c = g.curCall
	}
	if c == nil || g.skipArgClosures {
		return base
	}
	extra := newEffects()
	g.eng.argClosures(fn, c, func(f *ssa.Function) { extra.add(g.eng.FuncEffects(f)) }, func() { extra.All = true })
	if !extra.All && len(extra.Vars) == 0 {
		return base
	}
	extra.add(base)
	return extra
}

// frameAllowsVar: may the function under verification write (anywhere in) state variable n?
func (g *vcgen) frameAllowsVar(n string) bool {
	for _, m := range g.fc.Modifies {
		if m.Op == "sel" {
			continue // a single location does not cover a whole array
		}
		names, err := g.eng.modifiesVars(m, g.fn, g.s)
		if err != nil {
			continue
		}
		if _, ok := names[n]; ok {
			return true
		}
	}
	return false
}

func (g *vcgen) noteAssumption(s string) {
	for _, a := range g.u.Assumptions {
		if a == s {
			return
		}
	}
	g.u.Assumptions = append(g.u.Assumptions, s)
}

func (g *vcgen) noteUncontracted(name string) {
	g.noteAssumption("callee without contract (write set havocked, result arbitrary): " + name)
}

// applyWrapper handles synthetic wrappers for promoted methods: follows the embedding path to the real method.
func (g *vcgen) applyWrapper(fn *ssa.Function, args []string) ([]string, bool) {
	obj, ok := fn.Object().(*types.Func)
	if !ok || obj == nil {
		return nil, false
	}
	target := g.eng.Prog.FuncValue(obj)
	if target == nil {
		return nil, false
	}
	recvT := fn.Signature.Recv().Type()
	ms := g.eng.Prog.MethodSets.MethodSet(recvT)
	var sel *types.Selection
	for i := 0; i < ms.Len(); i++ {
		if ms.At(i).Obj() == obj {
			sel = ms.At(i)
			break
		}
	}
	if sel == nil {
		return nil, false
	}
	// walk the embedding path
	cur := args[0]
	t := recvT
	isPtr := false
	if p, ok := t.Underlying().(*types.Pointer); ok {
		t = p.Elem()
		isPtr = true
	}
	if !isPtr {
		return nil, false // value receivers of wrappers: not needed so far
	}
	idx := sel.Index()
	for _, fi := range idx[:len(idx)-1] {
		st := t.Underlying().(*types.Struct)
		f := st.Field(fi)
		if p, ok := f.Type().Underlying().(*types.Pointer); ok {
			cur = g.loadFieldIn(g.st, cur, t, fi)
			t = p.Elem()
		} else {
			cur = g.emb(t, f.Name(), cur)
			t = f.Type()
		}
	}
	// receiver of the target: pointer or value
	targs := append([]string{cur}, args[1:]...)
	if _, wantPtr := target.Signature.Recv().Type().Underlying().(*types.Pointer); !wantPtr {
		targs[0] = g.loadPtr(g.st, cur, t)
	}
	if fc := g.eng.ContractOf(target); fc != nil {
		return g.applyContract(fc, target, target.Signature, targs, nil, FullName(target)), true
	}
	g.havocEffects(g.callSiteEffects(target, nil))
	g.noteUncontracted(FullName(target))
	return g.freshResults(target.Signature), true
}

// contractEnv builds the evaluation environment of a contract for concrete argument terms.
func (g *vcgen) contractEnv(fc *FuncContract, fn *ssa.Function, sig *types.Signature, args, binds, results []string, cur, old *State) *cenv {
	vars := map[string]cval{}
	var pkg *types.Package
	if p, ok := g.eng.AllPkgs[fc.Pkg]; ok {
		pkg = p.Types
	}
	i := 0
	if sig.Recv() != nil && len(args) > 0 {
		name := sig.Recv().Name()
		if fn != nil && len(fn.Params) > 0 {
			name = fn.Params[0].Name()
		}
		cv := cval{term: args[0], typ: sig.Recv().Type(), sort: g.s.sortOf(sig.Recv().Type())}
		if name != "" && name != "_" {
			vars[name] = cv
		}
		vars["recv"] = cv
		i = 1
	}
	for k := 0; k < sig.Params().Len() && i+k < len(args); k++ {
		p := sig.Params().At(k)
		cv := cval{term: args[i+k], typ: p.Type(), sort: g.s.sortOf(p.Type())}
		if p.Name() != "" && p.Name() != "_" {
			vars[p.Name()] = cv
		}
		vars[fmt.Sprintf("a%d", k)] = cv
	}
	if fn != nil {
		for k, fv := range fn.FreeVars {
			if k < len(binds) {
				// captured variables are cells: expose the current content under the variable's name and the cell as name$cell
				if pt, ok := fv.Type().Underlying().(*types.Pointer); ok {
					vars[fv.Name()+"$cell"] = cval{term: binds[k], typ: fv.Type(), sort: "Int"}
					vars[fv.Name()] = cval{term: g.loadPtr(cur, binds[k], pt.Elem()), typ: pt.Elem(), sort: g.s.sortOf(pt.Elem()), cell: binds[k]}
				} else {
					vars[fv.Name()] = cval{term: binds[k], typ: fv.Type(), sort: g.s.sortOf(fv.Type())}
				}
			}
		}
	}
	for k := 0; k < sig.Results().Len() && k < len(results); k++ {
		r := sig.Results().At(k)
		cv := cval{term: results[k], typ: r.Type(), sort: g.s.sortOf(r.Type())}
		if r.Name() != "" && r.Name() != "_" {
			vars[r.Name()] = cv
		}
		vars[fmt.Sprintf("r%d", k)] = cv
		if k == 0 {
			vars["result"] = cv
		}
	}
	return &cenv{g: g, vars: vars, cur: cur, old: old, pkg: pkg, ctx: fc.FullName()}
}

func clauseLabel(c Clause, i int) string {
	if c.Label != "" {
		return c.Label
	}
	return fmt.Sprint(i)
}

// applyContract: assert requires, havoc modifies, assume ensures.
func (g *vcgen) applyContract(fc *FuncContract, fn *ssa.Function, sig *types.Signature, args, binds []string, calleeName string) []string {
	site := g.callSite(shortName(calleeName))
	calleeShort := shortName(calleeName)
	// type invariants of the objects handed over, as they stand before the call
	invBefore := map[int][]string{}
	if fn != nil && fn.Blocks != nil && g.eng.InModule(fn) && !fc.Assumed {
		for i, p := range fn.Params {
			if i >= len(args) || flagHas(fc.Flags["partial"], p.Name()) {
				continue
			}
			if _, ok := p.Type().Underlying().(*types.Pointer); !ok {
				continue
			}
			if ti := g.typeInvOf(p.Type()); ti != nil {
				invBefore[i] = g.typeInvTerms(ti, args[i], p.Type(), g.st)
				if !g.storesToType(p.Type()) && !g.allocatesType(p.Type()) {
					// visible-state semantics: a function that neither allocates nor stores into objects of the type
					// only ever sees them in states in which their invariant holds
					for _, tm := range invBefore[i] {
						g.assume(fmt.Sprintf("(=> (not (= %s 0)) %s)", args[i], tm))
					}
				}
				if os.Getenv("GOVC_INVARG") != "" {
					for k, tm := range invBefore[i] {
						g.obligeAt("typeinv-arg", fmt.Sprintf("%s:%s:%d", calleeShort, p.Name(), k), site, fmt.Sprintf("(=> (not (= %s 0)) %s)", args[i], tm), ti.Clauses[k].Src)
					}
				}
			}
		}
	}
	if !fc.Assumed {
		g.u.UsedContracts[calleeName] = true
	}
	pre := g.st.clone()
	envPre := g.contractEnv(fc, fn, sig, args, binds, nil, g.st, nil)
	if pp := fc.Flags["pureparam"]; pp != "" && fn != nil {
		off := 0
		if sig.Recv() != nil {
			off = 1
		}
		for k := 0; k < sig.Params().Len(); k++ {
			if !flagHas(pp, sig.Params().At(k).Name()) || off+k >= len(args) {
				continue
			}
			okPure := "false"
			if mc, isClo := g.closures[args[off+k]]; isClo {
				if cf, ok := mc.Fn.(*ssa.Function); ok {
					if cc := g.eng.ContractOf(cf); cc != nil {
						if _, pure := cc.Flags["pure"]; pure && cc.HasModifies && len(cc.Modifies) == 0 {
							okPure = "true"
						}
					}
				}
			}
			g.obligeAt("pre", calleeShort+":pure("+sig.Params().At(k).Name()+")", site, okPure, "the function value passed must be a closure whose contract is 'pure' with 'modifies nothing'")
		}
	}
	for i, r := range fc.Requires {
		t, err := envPre.EvalBool(r.Expr)
		if err != nil {
			g.unsupported("requires of %s: %v", calleeName, err)
			continue
		}
		g.obligeAt("pre", calleeShort+":"+clauseLabel(r, i), site, t, r.Src)
	}
	// frame: what the callee may modify must be allowed by the caller's own modifies clause
	endCall := g.beginCall()
	defer endCall()
	savedHE := g.havockedEvents
	g.havockedEvents = map[string]bool{}
	defer func() { g.havockedEvents = savedHE }()
	if fn == nil {
		g.eng.pkgHint = fc.Pkg
		defer func() { g.eng.pkgHint = "" }()
	}
	if fc.HasModifies {
		g.stateVar("G.alloc", "Int")
		g.havocNamed("G.alloc")
		for _, m := range fc.Modifies {
			g.havocTarget(m, envPre, fn)
		}
		for _, ev := range fc.Emits {
			g.havocEvent(ev)
		}
		// ghost events are not part of a frame: whatever the callee's body may emit (computed, not declared)
		// is forgotten here, so callers never count with stale counters
		if fn != nil && fn.Blocks != nil && g.eng.InModule(fn) {
			evs, all := g.eng.EventEffects(fn)
			if all {
				for n := range g.varSort {
					if strings.HasPrefix(n, "G.cnt.") {
						evs[strings.TrimPrefix(n, "G.cnt.")] = true
					}
				}
			}
			var names []string
			for ev := range evs {
				names = append(names, ev)
			}
			sort.Strings(names)
			for _, ev := range names {
				g.havocEvent(ev)
			}
			if len(names) > 0 {
				g.stateVar("G.now", "Int")
				g.havocNamed("G.now")
			}
		}
	} else if fn != nil && fn.Blocks != nil && g.eng.InModule(fn) {
		g.havocEffectsOf(g.callSiteEffects(fn, nil), calleeShort)
	} else {
		g.stateVar("G.alloc", "Int")
		g.havocNamed("G.alloc")
	}
	results := g.freshResults(sig)
	envPost := g.contractEnv(fc, fn, sig, args, binds, results, g.st, pre)
	if len(fc.Ensures) > 0 {
		g.cover("before:"+site, "true")
	}
	for i, e := range fc.Ensures {
		if g.eng.NotAssumed[calleeShort+"/post("+clauseLabel(e, i)+")"] {
			continue // a recorded finding: the clause is known not to hold, nobody may rely on it
		}
		t, err := envPost.EvalBool(e.Expr)
		if err != nil {
			if strings.Contains(err.Error(), "the event never occurs in this function") {
				continue // a clause about the callee's internal call trace: not visible to this caller
			}
			g.unsupported("ensures of %s: %v", calleeName, err)
			continue
		}
		g.assume(t)
	}
	if len(fc.Ensures) > 0 {
		// the assumed postconditions must not contradict what is known here: otherwise everything after this call
		// would hold vacuously (reported as UNDECIDED when a solver proves the contradiction)
		g.cover("after:"+site, "true")
	}
	if fc.Assumed {
		g.noteAssumption("assumed contract: " + calleeName)
	}
	// visible-state semantics of type invariants: the objects handed to a verified function satisfy their
	// type's invariant again when it returns (the callee's own unit proves it for every type it stores into)
	if fn != nil && fn.Blocks != nil && g.eng.InModule(fn) && !fc.Assumed {
		for i, p := range fn.Params {
			if i >= len(args) || flagHas(fc.Flags["partial"], p.Name()) {
				continue
			}
			if _, ok := p.Type().Underlying().(*types.Pointer); !ok {
				continue
			}
			ti := g.typeInvOf(p.Type())
			if ti == nil {
				continue
			}
			before := invBefore[i]
			after := g.typeInvTerms(ti, args[i], p.Type(), g.st)
			if len(before) != len(after) {
				continue
			}
			for k := range after {
				if before[k] == after[k] {
					continue // nothing the invariant reads has changed
				}
				// the callee's unit proves the invariant at exit under the invariant at entry: only that implication is known here
				g.assume(fmt.Sprintf("(=> (not (= %s 0)) (=> %s %s))", args[i], before[k], after[k]))
			}
		}
	}
	return results
}

func shortName(full string) string {
	if i := strings.LastIndex(full, "/"); i >= 0 {
		full = full[i+1:]
	}
	return full
}

// havocTarget forgets one modifies target: x.f (one location), T.f / mapof(x) (whole arrays), events(...), ghost(...)
func (g *vcgen) havocTarget(m *CExpr, env *cenv, fn *ssa.Function) {
	if m.Op == "call" && m.Args[0].Op == "id" {
		switch m.Args[0].Name {
		case "events":
			for _, a := range m.Args[1:] {
				g.havocEvent(a.Name)
			}
			g.havocNamed("G.now")
			return
		case "ghost":
			for _, a := range m.Args[1:] {
				g.stateVar("G.u."+a.Name, "Int")
				g.havocNamed("G.u." + a.Name)
			}
			return
		case "gm":
			name := "G.m." + m.Args[1].Name
			g.stateVar(name, "(Array Int Int)")
			if len(m.Args) < 3 {
				g.havocNamed(name)
				g.frameCheckVar(name, m.String())
				return
			}
			k, err := env.Eval(m.Args[2])
			if err != nil {
				g.unsupported("modifies %s: %v", m, err)
				return
			}
			kt := k.term
			if k.sort == "Iface" {
				kt = fmt.Sprintf("(ival %s)", k.term)
			}
			fv := g.freshConst("gm", "Int")
			g.set(name, fmt.Sprintf("(store %s %s %s)", g.get(g.st, name), kt, fv))
			g.frameCheckVar(name, m.String())
			return
		case "mapof":
			mv, err := env.Eval(m.Args[1])
			if err != nil {
				g.unsupported("modifies %s: %v", m, err)
				return
			}
			mt := mv.typ.Underlying().(*types.Map)
			has, val, ln := g.mapArrs(mt)
			for _, arr := range []string{has, val, ln} {
				cur := g.get(g.st, arr)
				fv := g.freshConst("mod", arrayElemSort(g.varSort[arr]))
				g.set(arr, fmt.Sprintf("(store %s %s %s)", cur, mv.term, fv))
			}
			g.frameCheckMapTerm(mv.term, "mapof("+m.Args[1].String()+")")
			return
		case "all":
			// all(T.f): the field of every object
			names, err := g.eng.modifiesVars(m.Args[1], fn, g.s)
			if err == nil {
				var ns []string
				for n := range names {
					ns = append(ns, n)
				}
				sort.Strings(ns)
				for _, n := range ns {
					g.stateVar(n, names[n](g.s))
					g.havocNamed(n)
					g.frameCheckVar(n, m.String())
				}
			} else {
				g.unsupported("modifies %s: %v", m, err)
			}
			return
		}
	}
	if m.Op == "id" {
		if cv, ok := env.vars[m.Name]; ok && cv.cell != "" {
			// a variable captured by the closure: its cell
			g.storePtr(cv.cell, cv.typ, g.freshOfType("mod."+m.Name, cv.typ))
			return
		}
		// a package-level variable
		if env.pkg != nil {
			if sp := g.eng.Prog.Package(env.pkg); sp != nil {
				if gl := sp.Var(m.Name); gl != nil {
					vn := g.globalVarName(gl)
					g.stateVar(vn, g.s.sortOf(gl.Type().Underlying().(*types.Pointer).Elem()))
					g.havocNamed(vn)
					g.frameCheckVar(vn, m.String())
					return
				}
			}
		}
	}
	if m.Op != "sel" {
		g.unsupported("modifies target %s", m)
		return
	}
	b, err := env.Eval(m.Args[0])
	if err != nil {
		g.unsupported("modifies %s: %v", m, err)
		return
	}
	t := b.typ
	if p, ok := t.Underlying().(*types.Pointer); ok {
		t = p.Elem()
	}
	st, ok := t.Underlying().(*types.Struct)
	if !ok {
		g.unsupported("modifies %s: not a struct", m)
		return
	}
	bterm := b.term
	if b.addr != "" {
		bterm = b.addr
	}
	for i := 0; i < st.NumFields(); i++ {
		if st.Field(i).Name() == m.Name {
			g.frameCheckField(bterm, t, i)
			g.havocFieldAt(bterm, t, i)
			return
		}
	}
	g.unsupported("modifies %s: no such field", m)
}

func (g *vcgen) havocFieldAt(base string, t types.Type, i int) {
	f := t.Underlying().(*types.Struct).Field(i)
	if _, isS := f.Type().Underlying().(*types.Struct); isS && isDecomposedStruct(f.Type()) {
		inner := g.emb(t, f.Name(), base)
		ist := f.Type().Underlying().(*types.Struct)
		for k := 0; k < ist.NumFields(); k++ {
			g.havocFieldAt(inner, f.Type(), k)
		}
		return
	}
	name, ft := g.fieldArr(t, i)
	fv := g.freshOfType("mod", ft)
	g.set(name, fmt.Sprintf("(store %s %s %s)", g.get(g.st, name), base, fv))
}

// ---- frame obligations of the function under verification ----

func (g *vcgen) frameActive() bool { return g.fc != nil && g.fc.HasModifies && !g.inCallee }

func (g *vcgen) frameCheckField(base string, st types.Type, idx int) {
	if !g.frameActive() {
		return
	}
	if g.freshObjs[base] {
		return
	}
	fname := st.Underlying().(*types.Struct).Field(idx).Name()
	var allowed []string
	allowed = append(allowed, fmt.Sprintf("(> %s %s)", base, g.get(g.old0, "G.alloc"))) // object allocated by this call
	fenv := *g.entryEnv
	fenv.cur = g.oldView(g.st) // modifies targets are evaluated in the pre-state (for monitor-protected fields: at acquisition)
	for _, m := range g.fc.Modifies {
		if m.Op == "call" && m.Args[0].Op == "id" && m.Args[0].Name == "all" && m.Args[1].Op == "sel" && m.Args[1].Name == fname {
			if t, err := g.eng.staticTypeOf(m.Args[1].Args[0], g.fn); err == nil && sameStruct(t, st) {
				return
			}
		}
		if m.Op != "sel" || m.Name != fname {
			// a struct-typed target covers its inner fields
			if m.Op == "sel" {
				if b, err := fenv.Eval(m); err == nil && b.typ != nil {
					if _, isS := b.typ.Underlying().(*types.Struct); isS && isDecomposedStruct(b.typ) && sameStruct(b.typ, st) {
						bb, _ := fenv.Eval(m.Args[0])
						bt := bb.typ
						if p, ok := bt.Underlying().(*types.Pointer); ok {
							bt = p.Elem()
						}
						allowed = append(allowed, fmt.Sprintf("(= %s %s)", base, g.emb(bt, m.Name, bb.term)))
					}
				}
			}
			continue
		}
		b, err := fenv.Eval(m.Args[0])
		if err != nil || b.typ == nil {
			continue
		}
		if !sameStruct(b.typ, st) {
			continue
		}
		bt := b.term
		if b.addr != "" {
			bt = b.addr // an embedded struct: the location is inside it
		}
		allowed = append(allowed, fmt.Sprintf("(= %s %s)", base, bt))
	}
	g.oblige("frame", "store to "+typeShort(st)+"."+fname, "(or "+strings.Join(allowed, " ")+")", "store outside the modifies clause")
}

func sameStruct(a, b types.Type) bool {
	if p, ok := a.Underlying().(*types.Pointer); ok {
		a = p.Elem()
	}
	if p, ok := b.Underlying().(*types.Pointer); ok {
		b = p.Elem()
	}
	return types.Identical(a, b)
}

func typeShort(t types.Type) string { return types.TypeString(t, shortQual) }

func (g *vcgen) frameCheckVar(name, what string) {
	if !g.frameActive() {
		return
	}
	for _, m := range g.fc.Modifies {
		if m.Op == "sel" {
			continue // single location: handled by frameCheckField
		}
		names, err := g.eng.modifiesVars(m, g.fn, g.s)
		if err != nil {
			continue
		}
		if _, ok := names[name]; ok {
			return
		}
	}
	g.oblige("frame", "write to "+what, "false", "write outside the modifies clause")
}

func (g *vcgen) frameCheckMap(m string, v ssa.Value) { g.frameCheckMapTerm(m, origin(v)) }

func (g *vcgen) frameCheckMapTerm(m string, what string) {
	if !g.frameActive() {
		return
	}
	allowed := []string{fmt.Sprintf("(> %s %s)", m, g.get(g.old0, "G.alloc"))}
	fenv := *g.entryEnv
	fenv.cur = g.oldView(g.st)
	for _, mod := range g.fc.Modifies {
		if mod.Op == "call" && mod.Args[0].Op == "id" && mod.Args[0].Name == "mapof" {
			if b, err := fenv.Eval(mod.Args[1]); err == nil {
				allowed = append(allowed, fmt.Sprintf("(= %s %s)", m, b.term))
			}
		}
	}
	g.oblige("frame", "update of map "+what, "(or "+strings.Join(allowed, " ")+")", "map update outside the modifies clause")
}

// ---- interface dispatch ----

func (g *vcgen) invoke(v ssa.Value, c *ssa.CallCommon, args []string) []string {
	recv := g.val(c.Value)
	itype := c.Value.Type()
	iname := typeName(itype)
	mname := c.Method.Name()
	// operations on a monitor's lock object (sync.Locker, or a module interface wrapping the lock)
	if mon, obj := g.monitorFor(c.Value, false); mon != nil {
		switch g.monitorOp(mon, mname) {
		case "lock":
			g.monLock(mon, obj)
			return g.freshResults(c.Signature())
		case "unlock":
			g.monUnlock(mon, obj, g.callSite("Unlock"))
			return g.freshResults(c.Signature())
		case "wait":
			g.monUnlock(mon, obj, g.callSite(mname))
			g.monLock(mon, obj)
			return g.freshResults(c.Signature())
		}
	} else if iname == "sync.Locker" {
		g.warn("Locker.%s on %s is not a declared monitor", mname, origin(c.Value))
		return nil
	}
	if g.safety {
		g.oblige("safe/nil", origin(c.Value), fmt.Sprintf("(not (= (itag %s) 0))", recv), "method call on nil interface")
	} else {
		g.assume(fmt.Sprintf("(not (= (itag %s) 0))", recv))
	}
	// an assumed interface-method contract takes precedence (interfaces implemented outside the module)
	if fc := g.eng.ifaceContract(c); fc != nil {
		sig := c.Signature()
		full := append([]string{recv}, args...)
		msig := types.NewSignatureType(types.NewVar(token.NoPos, nil, "recv", itype), nil, nil, sig.Params(), sig.Results(), sig.Variadic())
		res := g.applyContract(fc, nil, msig, full, nil, ifaceMethodKey(itype, mname))
		// the dynamic type may be a module type implementing the external interface: its own fields are the concrete
		// side of the interface's abstract state and may change with it (no separate frame obligation)
		if iface, ok := itype.Underlying().(*types.Interface); ok && !closedWorld(itype) {
			for _, t := range g.eng.Implementers(iface, iname) {
				if m := g.eng.MethodOf(t, mname, c.Method.Pkg()); m != nil && m.Blocks != nil && g.eng.InModule(m) {
					eff := g.eng.FuncEffects(m)
					var names []string
					for n := range eff.Vars {
						if strings.HasPrefix(n, "H.") || strings.HasPrefix(n, "P.") || strings.HasPrefix(n, "E.") || strings.HasPrefix(n, "M") {
							names = append(names, n)
						}
					}
					sort.Strings(names)
					ownPrefix := ""
					if pt, ok := t.Underlying().(*types.Pointer); ok {
						ownPrefix = "H." + typeName(pt.Elem()) + "."
					}
					for _, n := range names {
						g.stateVar(n, eff.Vars[n](g.s))
						if ownPrefix != "" && strings.HasPrefix(n, ownPrefix) && strings.HasPrefix(g.varSort[n], "(Array Int ") {
							// a field of the receiver's own type: only the receiver object itself (if it has that type) changes
							old := g.get(g.st, n)
							nv := g.havocVar(n)
							obj := fmt.Sprintf("(ival %s)", recv)
							g.st.m[n] = g.define(n, g.varSort[n], fmt.Sprintf("(ite (= (itag %s) %d) (store %s %s (select %s %s)) %s)", recv, g.eng.TagOf(t), old, obj, nv, obj, old))
							continue
						}
						g.havocNamed(n)
					}
					if len(names) > 0 {
						g.noteAssumption("interface " + iname + " is also implemented by module type " + t.String() + ": its fields written by " + mname + " are forgotten at every call through the interface")
					}
				}
			}
		}
		return res
	}
	var impls []types.Type
	if closedWorld(itype) {
		impls = g.eng.Implementers(itype.Underlying().(*types.Interface), iname)
	}
	if len(impls) == 0 {
		// an interface declared outside the module without assumed contract: the callee is unknown code
		if g.frameActive() {
			g.oblige("frame", "call of ("+iname+")."+mname, "false", "unknown implementation of an external interface may write anything")
		}
		g.havocAll()
		g.noteAssumption("call of unknown implementation of (" + iname + ")." + mname + ": all state havocked")
		return g.freshResults(c.Signature())
	}
	// closed world: the dynamic type is one of the module's implementers
	var tags []string
	for _, t := range impls {
		tags = append(tags, fmt.Sprintf("(= (itag %s) %d)", recv, g.eng.TagOf(t)))
	}
	g.assume("(or " + strings.Join(tags, " ") + ")")
	g.noteAssumption("closed-world dispatch for " + iname + ": " + implNames(impls))
	sig := c.Signature()
	nres := sig.Results().Len()
	type branch struct {
		cond string
		st   *State
		res  []string
	}
	var branches []branch
	saved := g.st
	savedPC := g.pc
	for i, t := range impls {
		fn := g.eng.MethodOf(t, mname, c.Method.Pkg())
		cond := tags[i]
		g.st = saved.clone()
		g.pc = g.define("pc", "Bool", fmt.Sprintf("(and %s %s)", savedPC, cond))
		var res []string
		if fn == nil {
			res = g.freshResults(sig)
		} else {
			var recvArg string
			if isPointerLike(t) {
				recvArg = fmt.Sprintf("(ival %s)", recv)
			} else {
				recvArg = g.unboxIface(t, recv)
			}
			res = g.applyFunc(v, fn, append([]string{recvArg}, args...), nil, c)
		}
		if len(res) != nres {
			res = g.freshResults(sig)
		}
		branches = append(branches, branch{cond, g.st, res})
	}
	g.pc = savedPC
	if len(branches) == 1 {
		g.st = branches[0].st
		return branches[0].res
	}
	// merge
	merged := saved.clone()
	keys := map[string]bool{}
	for _, b := range branches {
		for k := range b.st.m {
			keys[k] = true
		}
	}
	var ks []string
	for k := range keys {
		ks = append(ks, k)
	}
	sort.Strings(ks)
	for _, k := range ks {
		same := true
		first := g.get(branches[0].st, k)
		for _, b := range branches[1:] {
			if g.get(b.st, k) != first {
				same = false
			}
		}
		if same {
			merged.m[k] = first
			continue
		}
		term := g.get(branches[len(branches)-1].st, k)
		for i := len(branches) - 2; i >= 0; i-- {
			term = fmt.Sprintf("(ite %s %s %s)", branches[i].cond, g.get(branches[i].st, k), term)
		}
		merged.m[k] = g.define(k, g.varSort[k], term)
	}
	g.st = merged
	var results []string
	for r := 0; r < nres; r++ {
		term := branches[len(branches)-1].res[r]
		for i := len(branches) - 2; i >= 0; i-- {
			term = fmt.Sprintf("(ite %s %s %s)", branches[i].cond, branches[i].res[r], term)
		}
		results = append(results, g.define("res", g.s.sortOf(sig.Results().At(r).Type()), term))
	}
	return results
}

func implNames(ts []types.Type) string {
	var n []string
	for _, t := range ts {
		n = append(n, typeShort(t))
	}
	return strings.Join(n, ", ")
}

// ---- builtins ----

func (g *vcgen) builtin(v ssa.Value, b *ssa.Builtin, c *ssa.CallCommon, args []string) []string {
	switch b.Name() {
	case "len":
		switch t := c.Args[0].Type().Underlying().(type) {
		case *types.Basic:
			return []string{fmt.Sprintf("(str.len %s)", args[0])}
		case *types.Slice:
			return []string{fmt.Sprintf("(slen %s)", args[0])}
		case *types.Map:
			_, _, ln := g.mapArrs(t)
			g.assume(fmt.Sprintf("(>= (select %s %s) 0)", g.get(g.st, ln), args[0]))
			return []string{fmt.Sprintf("(ite (= %s 0) 0 (select %s %s))", args[0], g.get(g.st, ln), args[0])}
		case *types.Chan:
			r := g.freshConst("chanlen", "Int")
			g.assume(fmt.Sprintf("(>= %s 0)", r))
			return []string{r}
		}
	case "cap":
		if _, ok := c.Args[0].Type().Underlying().(*types.Slice); ok {
			return []string{fmt.Sprintf("(scap %s)", args[0])}
		}
	case "append":
		st, ok := c.Args[0].Type().Underlying().(*types.Slice)
		if !ok {
			break
		}
		// result: reallocated slice whose prefix equals the old contents; appended elements are tracked for 1-element appends
		arr := g.elemArr(st.Elem())
		r := g.newRef()
		s := args[0]
		var addLen string
		if _, isStr := c.Args[1].Type().Underlying().(*types.Basic); isStr {
			addLen = fmt.Sprintf("(str.len %s)", args[1])
		} else {
			addLen = fmt.Sprintf("(slen %s)", args[1])
		}
		newLen := g.define("applen", "Int", fmt.Sprintf("(+ (slen %s) %s)", s, addLen))
		cp := g.freshConst("appcap", "Int")
		g.assume(fmt.Sprintf("(>= %s %s)", cp, newLen))
		res := g.define("app", "Slice", fmt.Sprintf("(mk-slice %s 0 %s %s)", r, newLen, cp))
		cur := g.get(g.st, arr)
		na := g.freshConst("apparr", fmt.Sprintf("(Array Int %s)", g.s.sortOf(st.Elem())))
		// prefix preserved, appended part copied (quantified facts; only instantiated where needed)
		g.assume(fmt.Sprintf("(forall ((i!a Int)) (=> (and (<= 0 i!a) (< i!a (slen %s))) (= (select %s i!a) (select (select %s (sarr %s)) (+ (soff %s) i!a)))))", s, na, cur, s, s))
		if _, isStr := c.Args[1].Type().Underlying().(*types.Basic); !isStr {
			g.assume(fmt.Sprintf("(forall ((i!a Int)) (=> (and (<= 0 i!a) (< i!a (slen %s))) (= (select %s (+ (slen %s) i!a)) (select (select %s (sarr %s)) (+ (soff %s) i!a)))))", args[1], na, s, cur, args[1], args[1]))
		}
		g.set(arr, fmt.Sprintf("(store %s %s %s)", cur, r, na))
		if b, isB := st.Elem().Underlying().(*types.Basic); isB && b.Info()&types.IsString != 0 {
			if _, packed := c.Args[1].Type().Underlying().(*types.Slice); packed {
				// totallen (sum of the lengths of the elements) is additive over append; a one-element slice has its element's length
				tl := g.totalLenFun()
				rowS := fmt.Sprintf("(select %s (sarr %s))", cur, s)
				rowP := fmt.Sprintf("(select %s (sarr %s))", cur, args[1])
				tS := fmt.Sprintf("(%s %s (soff %s) (slen %s))", tl, rowS, s, s)
				tP := fmt.Sprintf("(%s %s (soff %s) (slen %s))", tl, rowP, args[1], args[1])
				g.assume(fmt.Sprintf("(= (%s %s 0 %s) (+ %s %s))", tl, na, newLen, tS, tP))
				g.assume(fmt.Sprintf("(=> (= (slen %s) 1) (= %s (str.len (select %s (soff %s)))))", args[1], tP, rowP, args[1]))
				g.assume(fmt.Sprintf("(and (>= %s 0) (=> (= (slen %s) 0) (= %s 0)))", tS, s, tS))
			}
		}
		return []string{res}
	case "delete":
		mt, ok := c.Args[0].Type().Underlying().(*types.Map)
		if !ok {
			break
		}
		m, k := args[0], args[1]
		has, _, ln := g.mapArrs(mt)
		ch, cl := g.get(g.st, has), g.get(g.st, ln)
		g.frameCheckMap(m, c.Args[0])
		g.set(ln, fmt.Sprintf("(ite (= %s 0) %s (store %s %s (ite (select (select %s %s) %s) (- (select %s %s) 1) (select %s %s))))", m, cl, cl, m, ch, m, k, cl, m, cl, m))
		g.set(has, fmt.Sprintf("(ite (= %s 0) %s (store %s %s (store (select %s %s) %s false)))", m, ch, ch, m, ch, m, k))
		return nil
	case "close":
		g.emitChanEvents("close", c.Args[0], "true") // close(ch) is an event of the channel it closes
		return nil
	case "copy":
		if st, ok := c.Args[0].Type().Underlying().(*types.Slice); ok {
			g.havocVar(g.elemArr(st.Elem()))
		}
		r := g.freshConst("copied", "Int")
		g.assume(fmt.Sprintf("(>= %s 0)", r))
		return []string{r}
	case "min", "max":
		if len(args) == 2 && g.s.sortOf(c.Args[0].Type()) == "Int" {
			op := "<="
			if b.Name() == "max" {
				op = ">="
			}
			return []string{fmt.Sprintf("(ite (%s %s %s) %s %s)", op, args[0], args[1], args[0], args[1])}
		}
	case "print", "println":
		return nil
	case "ssa:wrapnilchk":
		return []string{args[0]}
	}
	g.warn("builtin %s is uninterpreted", b.Name())
	return g.freshResults(c.Signature())
}

// ---- channels, goroutines, defers ----

func (g *vcgen) chanSend(ch, x ssa.Value) {
	g.val(ch)
	g.val(x)
	for _, ci := range g.eng.chanInvsFor(ch) {
		t, err := g.chanInvTerm(ci, g.val(x), x.Type())
		if err != nil {
			g.unsupported("chaninv %s: %v", ci.Ref, err)
			continue
		}
		g.oblige("chaninv", ci.Ref, t, "every value sent on "+ci.Ref+" satisfies "+ci.Src)
	}
	g.emitChanEventsVal("send", ch, "true", x)
}

func (g *vcgen) chanRecv(x *ssa.UnOp) {
	g.emitChanEvents("recv", x.X, "true")
	if x.CommaOk {
		et := x.X.Type().Underlying().(*types.Chan).Elem()
		v := g.freshOfType("recv", et)
		ok := g.freshConst("recvok", "Bool")
		g.assume(fmt.Sprintf("(=> (not %s) (= %s %s))", ok, v, g.s.zero(et)))
		g.tup[x] = []string{v, ok}
		g.assumeChanInv(x.X, v, ok)
		return
	}
	g.setValFresh(x)
	g.assumeChanInv(x.X, g.vals[x], "true")
}

func (g *vcgen) selectOp(x *ssa.Select) {
	n := len(x.States)
	idx := g.freshConst("sel.idx", "Int")
	if x.Blocking {
		g.assume(fmt.Sprintf("(and (<= 0 %s) (< %s %d))", idx, idx, n))
	} else {
		g.assume(fmt.Sprintf("(and (<= (- 1) %s) (< %s %d))", idx, idx, n))
	}
	res := []string{idx, g.freshConst("sel.ok", "Bool")}
	for i, st := range x.States {
		kind := "recv"
		if st.Dir == types.SendOnly {
			kind = "send"
		}
		g.emitChanEventsVal(kind, st.Chan, fmt.Sprintf("(= %s %d)", idx, i), st.Send) // the case that was chosen
	}
	for i, st := range x.States {
		if st.Dir == types.RecvOnly {
			et := st.Chan.Type().Underlying().(*types.Chan).Elem()
			rv := g.freshOfType("sel.recv", et)
			res = append(res, rv)
			g.assumeChanInv(st.Chan, rv, fmt.Sprintf("(= %s %d)", idx, i))
		} else if st.Send != nil {
			// a send case: the invariant is owed only if this case is the one chosen
			for _, ci := range g.eng.chanInvsFor(st.Chan) {
				t, err := g.chanInvTerm(ci, g.val(st.Send), st.Send.Type())
				if err != nil {
					g.unsupported("chaninv %s: %v", ci.Ref, err)
					continue
				}
				g.oblige("chaninv", ci.Ref, fmt.Sprintf("(=> (= %s %d) %s)", idx, i, t), "every value sent on "+ci.Ref+" satisfies "+ci.Src)
			}
		}
	}
	g.tup[x] = res
}

func (g *vcgen) goStmt(x *ssa.Go) {
	c := x.Common()
	var args []string
	for _, a := range c.Args {
		args = append(args, g.val(a))
	}
	// the spawner must establish the spawned function's precondition; it learns nothing about its effects
	var fn *ssa.Function
	var binds []string
	if f := c.StaticCallee(); f != nil {
		fn = f
		if mc, ok := c.Value.(*ssa.MakeClosure); ok {
			for _, bv := range mc.Bindings {
				binds = append(binds, g.val(bv))
			}
		}
	}
	if fn == nil {
		return
	}
	// starting a goroutine is an observable step of the spawner: a "go" event of the started function
	g.eng.wantSpawn = true
	g.emitEvents(c, args, nil, false)
	g.eng.wantSpawn = false
	// a captured variable that the goroutine reads and this function assigns again after the go statement (race.go)
	for _, r := range spawnRaces(x) {
		// a fact of the control-flow graph, not of the path condition: the obligation carries no assumptions and fails at once
		g.u.Obls = append(g.u.Obls, &Obligation{Name: g.u.Name + "/race(go " + shortName(FullName(r.Closure)) + ": " + r.Var + ")", Class: "race", Func: g.u.Name,
			Src:   "the goroutine reads the captured variable " + r.Var + ", which its starter assigns again after the go statement: it does not see the value it was started for",
			Parts: []Part{{Prefix: 0, Goal: "false"}}})
	}
	if fc := g.eng.ContractOf(fn); fc != nil {
		env := g.contractEnv(fc, fn, fn.Signature, args, binds, nil, g.st, nil)
		site := g.callSite("go " + shortName(FullName(fn)))
		for i, r := range fc.Requires {
			t, err := env.EvalBool(r.Expr)
			if err != nil {
				g.unsupported("requires of %s: %v", FullName(fn), err)
				continue
			}
			g.obligeAt("pre", "go "+shortName(FullName(fn))+":"+clauseLabel(r, i), site, t, r.Src)
		}
	}
}

func (g *vcgen) deferStmt(x *ssa.Defer) {
	c := x.Common()
	var args []string
	for _, a := range c.Args {
		args = append(args, g.val(a))
	}
	idx := len(g.defers)
	armed := fmt.Sprintf("G.armed.%d", idx)
	g.stateVar(armed, "Bool")
	g.set(armed, "true")
	g.defers = append(g.defers, &deferRec{instr: x, args: args, block: x.Block(), armed: armed, idx: idx})
}

func (g *vcgen) runDefers(b *ssa.BasicBlock) {
	for i := len(g.defers) - 1; i >= 0; i-- {
		d := g.defers[i]
		if g.dom[b][d.block] {
			g.runDeferred(d)
			continue
		}
		armed := g.get(g.st, d.armed)
		if _, ok := g.st.m[d.armed]; !ok {
			// never armed on any path reaching here
			continue
		}
		g.guarded(armed, func() { g.runDeferred(d) })
	}
}

func (g *vcgen) runDeferred(d *deferRec) {
	c := d.instr.Common()
	// re-evaluate with the argument terms captured at defer time
	saved := map[ssa.Value]string{}
	for i, a := range c.Args {
		if old, ok := g.vals[a]; ok {
			saved[a] = old
		}
		g.vals[a] = d.args[i]
	}
	g.call(nil, c, true)
	for a, old := range saved {
		g.vals[a] = old
	}
}

// guarded executes f under an additional path condition and merges the resulting state with the unchanged one.
func (g *vcgen) guarded(cond string, f func()) {
	saved := g.st
	savedPC := g.pc
	g.st = saved.clone()
	g.pc = g.define("pc", "Bool", fmt.Sprintf("(and %s %s)", savedPC, cond))
	f()
	after := g.st
	g.pc = savedPC
	merged := saved.clone()
	var ks []string
	for k := range after.m {
		ks = append(ks, k)
	}
	sort.Strings(ks)
	for _, k := range ks {
		a, b := after.m[k], g.get(saved, k)
		if a == b {
			continue
		}
		merged.m[k] = g.define(k, g.varSort[k], fmt.Sprintf("(ite %s %s %s)", cond, a, b))
	}
	g.st = merged
}

// ---- events ----

func (g *vcgen) eventVars(ev string) {
	g.stateVar("G.cnt."+ev, "Int")
	g.stateVar("G.first."+ev, "Int")
	g.stateVar("G.last."+ev, "Int")
	g.stateVar("G.now", "Int")
	if !g.declared["evwf:"+ev] {
		g.declared["evwf:"+ev] = true
		// at entry no time stamp is ahead of the ghost clock
		g.emit(fmt.Sprintf("(assert (and (<= %s %s) (<= %s %s)))", g.base("G.last."+ev), g.base("G.now"), g.base("G.first."+ev), g.base("G.now")))
	}
}

func (e *Engine) eventsFor(c *ssa.CallCommon) []*EventDecl {
	if len(e.DB.Events) == 0 {
		return nil
	}
	var name string
	if c.IsInvoke() {
		name = ifaceMethodKey(c.Value.Type(), c.Method.Name())
	} else if fn := c.StaticCallee(); fn != nil {
		name = FullName(fn)
	} else {
		return nil
	}
	var out []*EventDecl
	var names []string
	for n := range e.DB.Events {
		names = append(names, n)
	}
	sort.Strings(names)
	for _, n := range names {
		ev := e.DB.Events[n]
		if ev.Chan != "" || ev.Spawn != e.wantSpawn {
			continue
		}
		if ev.Callee == name || strings.HasSuffix(name, "."+ev.Callee) || strings.HasSuffix(name, "/"+ev.Callee) {
			out = append(out, ev)
		}
	}
	return out
}

// spawnEventsFor: the "go" events declared for the function a go statement starts
func (e *Engine) spawnEventsFor(c *ssa.CallCommon) []*EventDecl {
	e.wantSpawn = true
	defer func() { e.wantSpawn = false }()
	return e.eventsFor(c)
}

func valueFunc(v ssa.Value) *ssa.Function {
	switch x := v.(type) {
	case ssa.Instruction:
		return x.Parent()
	case *ssa.Parameter:
		return x.Parent()
	case *ssa.FreeVar:
		return x.Parent()
	}
	return nil
}

// chanFieldKey: the struct field a channel value was loaded from ("pkgpath.Type.field"), or ""
func chanFieldKey(ch ssa.Value) string {
	for {
		switch x := ch.(type) {
		case *ssa.ChangeType:
			ch = x.X
			continue
		case *ssa.UnOp:
			if x.Op == token.MUL {
				if fa, ok := x.X.(*ssa.FieldAddr); ok {
					st := fa.X.Type().Underlying().(*types.Pointer).Elem()
					return typeName(st) + "." + st.Underlying().(*types.Struct).Field(fa.Field).Name()
				}
			}
		case *ssa.Field:
			st := x.X.Type()
			return typeName(st) + "." + st.Underlying().(*types.Struct).Field(x.Field).Name()
		case *ssa.Call:
			// the channel a call returned, e.g. ctx.Done(): "call:context.(Context).Done"
			c := x.Common()
			if c.IsInvoke() {
				return "call:" + ifaceMethodKey(c.Value.Type(), c.Method.Name())
			}
			if fn := c.StaticCallee(); fn != nil {
				return "call:" + FullName(fn)
			}
		}
		return ""
	}
}

// chanKey: how contracts refer to the channel a value denotes (struct field, local variable of a function and its
// closures, or the result of a call)
func chanKey(ch ssa.Value) string {
	key := chanFieldKey(ch)
	if key == "" {
		// a local channel that the function also stores into a struct field is that field's channel (T.f): contracts then do
		// not depend on the name of the local
		key = chanFieldAlias(ch)
	}
	if key == "" {
		// a channel held in a local (possibly captured) variable: "local:<function>.<variable>"
		fn := valueFunc(ch)
		if fn != nil {
			g := &vcgen{fn: fn}
			if n := g.sourceNameOf(ch); n != "" {
				root := fn
				for root.Parent() != nil {
					root = root.Parent()
				}
				key = "local:" + FullName(root) + "." + n
			}
		}
	}
	return key
}

func chanRefMatches(ref, key string) bool {
	return ref == key || strings.HasSuffix(key, "."+ref) || strings.HasSuffix(key, "/"+ref) ||
		(strings.HasPrefix(ref, "call:") && strings.HasPrefix(key, "call:") && (strings.HasSuffix(key, "/"+ref[5:]) || key[5:] == ref[5:])) ||
		(strings.HasPrefix(ref, "local:") && strings.HasPrefix(key, "local:") && (strings.HasSuffix(key, "/"+ref[6:]) || key[6:] == ref[6:]))
}

// chanInvsFor: the channel invariants declared for the channel ch denotes
func (e *Engine) chanInvsFor(ch ssa.Value) []*ChanInv {
	key := chanKey(ch)
	if key == "" {
		return nil
	}
	var out []*ChanInv
	for _, ci := range e.DB.ChanInvs {
		if chanRefMatches(ci.Ref, key) {
			out = append(out, ci)
		}
	}
	return out
}

// chanInvTerm evaluates a channel invariant for the value term v of type t
func (g *vcgen) chanInvTerm(ci *ChanInv, v string, t types.Type) (string, error) {
	var pkg *types.Package
	if p, ok := g.eng.AllPkgs[ci.Pkg]; ok {
		pkg = p.Types
	}
	env := &cenv{g: g, vars: map[string]cval{"v": {term: v, typ: t, sort: g.s.sortOf(t)}}, cur: g.st, pkg: pkg, ctx: "chaninv " + ci.Ref}
	return env.EvalBool(ci.Pred)
}

// chanClosable: some close(ch) in the loaded program closes this channel (a receive may then yield the zero value)
func (e *Engine) chanClosable(ref string) bool {
	if e.closable == nil {
		e.closable = map[string]bool{}
		for _, fn := range e.AllFuncs {
			if fn.Blocks == nil || !e.InModule(fn) {
				continue
			}
			for _, b := range fn.Blocks {
				for _, ins := range b.Instrs {
					call, ok := ins.(ssa.CallInstruction)
					if !ok {
						continue
					}
					if bi, ok := call.Common().Value.(*ssa.Builtin); ok && bi.Name() == "close" && len(call.Common().Args) == 1 {
						if k := chanKey(call.Common().Args[0]); k != "" {
							e.closable[k] = true
						} else {
							e.closable["?"] = true
						}
					}
				}
			}
		}
	}
	if e.closable["?"] {
		return true
	}
	for k := range e.closable {
		if chanRefMatches(ref, k) {
			return true
		}
	}
	return false
}

// assumeChanInv: a value received from ch satisfies the channel's invariants (or is the zero value of a closed channel)
func (g *vcgen) assumeChanInv(ch ssa.Value, v string, cond string) {
	et := ch.Type().Underlying().(*types.Chan).Elem()
	for _, ci := range g.eng.chanInvsFor(ch) {
		t, err := g.chanInvTerm(ci, v, et)
		if err != nil {
			g.unsupported("chaninv %s: %v", ci.Ref, err)
			continue
		}
		if g.eng.chanClosable(ci.Ref) {
			t = fmt.Sprintf("(or %s (= %s %s))", t, v, g.s.zero(et))
		}
		g.assume(fmt.Sprintf("(=> %s %s)", cond, t))
		g.noteAssumption("channel invariant relied on at a receive: " + ci.Ref + " carries only values with " + ci.Src + " (proved at every send inside the verified functions)")
	}
}

func (e *Engine) chanEventsFor(kind string, ch ssa.Value) []*EventDecl {
	key := chanKey(ch)
	if key == "" {
		return nil
	}
	var names []string
	for n := range e.DB.Events {
		names = append(names, n)
	}
	sort.Strings(names)
	var out []*EventDecl
	for _, n := range names {
		ev := e.DB.Events[n]
		if ev.Chan == kind && chanRefMatches(ev.Callee, key) {
			out = append(out, ev)
		}
	}
	return out
}

// emitChanEvents counts a channel operation (under condition cond) for every event declared on that channel field
func (g *vcgen) emitChanEvents(kind string, ch ssa.Value, cond string) { g.emitChanEventsVal(kind, ch, cond, nil) }

// emitChanEventsVal: as emitChanEvents; for a send the value sent is recorded as argument 0 of the event
func (g *vcgen) emitChanEventsVal(kind string, ch ssa.Value, cond string, sent ssa.Value) {
	for _, ev := range g.eng.chanEventsFor(kind, ch) {
		if sent != nil {
			an := fmt.Sprintf("G.arg.%s.0", ev.Name)
			g.stateVar(an, g.s.sortOf(sent.Type()))
			if g.argTypes == nil {
				g.argTypes = map[string]types.Type{}
			}
			g.argTypes[an] = sent.Type()
			g.set(an, fmt.Sprintf("(ite %s %s %s)", cond, g.val(sent), g.get(g.st, an)))
		}
		g.eventVars(ev.Name)
		now := g.get(g.st, "G.now")
		cnt := g.get(g.st, "G.cnt."+ev.Name)
		first := g.get(g.st, "G.first."+ev.Name)
		last := g.get(g.st, "G.last."+ev.Name)
		g.set("G.now", fmt.Sprintf("(+ %s 1)", now))
		nn := g.get(g.st, "G.now")
		g.set("G.cnt."+ev.Name, fmt.Sprintf("(ite %s (+ %s 1) %s)", cond, cnt, cnt))
		// since(E, S): an occurrence of S takes a snapshot of E's counter
		for _, e2 := range g.eng.sinceOf(ev.Name) {
			g.eventVars(e2)
			sn := snapVar(e2, ev.Name)
			g.stateVar(sn, "Int")
			g.set(sn, fmt.Sprintf("(ite %s %s %s)", cond, g.get(g.st, "G.cnt."+e2), g.get(g.st, sn)))
		}
		g.set("G.first."+ev.Name, fmt.Sprintf("(ite (and %s (= %s %s)) %s %s)", cond, cnt, g.get(g.old0, "G.cnt."+ev.Name), nn, first))
		g.set("G.last."+ev.Name, fmt.Sprintf("(ite %s %s %s)", cond, nn, last))
	}
}

type eventSig struct {
	args  []types.Type // a0 = receiver for methods and interface calls
	names []string     // parameter names of the callee, aligned with args ("" when unknown)
	ret   types.Type
}

// eventSig: argument and result types of the calls that emit the event (taken from the first call site in the module)
func (e *Engine) eventSig(name string) *eventSig {
	if e.eventSigs == nil {
		e.eventSigs = map[string]*eventSig{}
		for _, fn := range e.AllFuncs {
			if fn.Blocks == nil || !e.InModule(fn) {
				continue
			}
			for _, b := range fn.Blocks {
				for _, ins := range b.Instrs {
					ci, ok := ins.(ssa.CallInstruction)
					if !ok {
						continue
					}
					c := ci.Common()
					evs := e.eventsFor(c)
					if _, isGo := ins.(*ssa.Go); isGo {
						evs = e.spawnEventsFor(c)
					}
					for _, ev := range evs {
						if _, done := e.eventSigs[ev.Name]; done {
							continue
						}
						sg := &eventSig{}
						if c.IsInvoke() {
							sg.args = append(sg.args, c.Value.Type())
							sg.names = append(sg.names, "recv")
							for k := 0; k < c.Signature().Params().Len(); k++ {
								sg.names = append(sg.names, c.Signature().Params().At(k).Name())
							}
						} else if callee := c.StaticCallee(); callee != nil {
							for _, prm := range callee.Params {
								sg.names = append(sg.names, prm.Name())
							}
						}
						for _, a := range c.Args {
							sg.args = append(sg.args, a.Type())
						}
						if c.Signature().Results().Len() > 0 {
							sg.ret = c.Signature().Results().At(0).Type()
						}
						e.eventSigs[ev.Name] = sg
					}
				}
			}
		}
	}
	if sg, ok := e.eventSigs[name]; ok {
		return sg
	}
	// no call site (left) in the module: take the signature from the declaration the event names
	ev := e.DB.Events[name]
	if ev == nil {
		return nil
	}
	match := func(full string) bool {
		return ev.Callee == full || strings.HasSuffix(full, "."+ev.Callee) || strings.HasSuffix(full, "/"+ev.Callee)
	}
	var found *eventSig
	for _, p := range e.AllPkgs {
		if found != nil {
			break
		}
		sc := p.Types.Scope()
		for _, n := range sc.Names() {
			tn, ok := sc.Lookup(n).(*types.TypeName)
			if !ok {
				continue
			}
			it, ok := tn.Type().Underlying().(*types.Interface)
			if !ok {
				continue
			}
			for i := 0; i < it.NumMethods(); i++ {
				m := it.Method(i)
				if match(ifaceMethodKey(tn.Type(), m.Name())) {
					sig := m.Type().(*types.Signature)
					sg := &eventSig{args: []types.Type{tn.Type()}}
					for k := 0; k < sig.Params().Len(); k++ {
						sg.args = append(sg.args, sig.Params().At(k).Type())
					}
					if sig.Results().Len() > 0 {
						sg.ret = sig.Results().At(0).Type()
					}
					found = sg
				}
			}
		}
	}
	if found == nil {
		for _, fn := range e.AllFuncs {
			if match(FullName(fn)) {
				sg := &eventSig{}
				for _, prm := range fn.Params {
					sg.args = append(sg.args, prm.Type())
				}
				if fn.Signature.Results().Len() > 0 {
					sg.ret = fn.Signature.Results().At(0).Type()
				}
				found = sg
				break
			}
		}
	}
	e.eventSigs[name] = found
	return found
}

// declareEventVars registers the ghost variables of every event that a call in this function can emit, so that
// invariants at a loop head may mention events that only occur further down in the body
func (g *vcgen) declareEventVars() {
	// events the function's own contract talks about (they may occur only inside callees)
	if g.fc != nil {
		seen := map[string]bool{}
		var visit func(e *CExpr)
		visit = func(e *CExpr) {
			if e == nil {
				return
			}
			if e.Op == "id" {
				if _, isEv := g.eng.DB.Events[e.Name]; isEv && !seen[e.Name] {
					seen[e.Name] = true
					g.eventVars(e.Name)
					if sig := g.eng.eventSig(e.Name); sig != nil {
						if g.argTypes == nil {
							g.argTypes = map[string]types.Type{}
						}
						if g.retTypes == nil {
							g.retTypes = map[string]types.Type{}
						}
						if g.eng.DB.Events[e.Name].Ret {
							if sig.ret != nil {
								g.stateVar("G.ret."+e.Name, g.s.sortOf(sig.ret))
								g.stateVar("G.fret."+e.Name, g.s.sortOf(sig.ret))
								g.retTypes[e.Name] = sig.ret
							}
						} else {
							for k, t := range sig.args {
								an := fmt.Sprintf("G.arg.%s.%d", e.Name, k)
								g.stateVar(an, g.s.sortOf(t))
								g.argTypes[an] = t
							}
						}
					}
				}
			}
			for _, a := range e.Args {
				visit(a)
			}
		}
		for _, c := range g.fc.Requires {
			visit(c.Expr)
		}
		for _, c := range g.fc.Ensures {
			visit(c.Expr)
		}
		for _, cs := range g.fc.Loops {
			for _, c := range cs {
				visit(c.Expr)
			}
		}
	}
	for _, b := range g.fn.Blocks {
		for _, ins := range b.Instrs {
			ci, ok := ins.(ssa.CallInstruction)
			if !ok {
				continue
			}
			c := ci.Common()
			evs := g.eng.eventsFor(c)
			if _, isGo := ins.(*ssa.Go); isGo {
				evs = g.eng.spawnEventsFor(c)
			}
			for _, ev := range evs {
				g.eventVars(ev.Name)
				if ev.Ret {
					if c.Signature().Results().Len() > 0 {
						rt := c.Signature().Results().At(0).Type()
						g.stateVar("G.ret."+ev.Name, g.s.sortOf(rt))
						g.stateVar("G.fret."+ev.Name, g.s.sortOf(rt))
						if g.retTypes == nil {
							g.retTypes = map[string]types.Type{}
						}
						g.retTypes[ev.Name] = rt
					}
					continue
				}
				var vals []ssa.Value
				if c.IsInvoke() {
					vals = append(vals, c.Value)
				}
				vals = append(vals, c.Args...)
				if g.argTypes == nil {
					g.argTypes = map[string]types.Type{}
				}
				for k, v := range vals {
					an := fmt.Sprintf("G.arg.%s.%d", ev.Name, k)
					g.stateVar(an, g.s.sortOf(v.Type()))
					g.argTypes[an] = v.Type()
				}
			}
		}
	}
}

func (g *vcgen) emitEvents(c *ssa.CallCommon, args []string, results []string, ret bool) {
	for _, ev := range g.eng.eventsFor(c) {
		if ev.Ret != ret {
			continue
		}
		if ret && len(results) > 0 {
			g.stateVar("G.ret."+ev.Name, g.s.sortOf(c.Signature().Results().At(0).Type()))
			g.stateVar("G.fret."+ev.Name, g.s.sortOf(c.Signature().Results().At(0).Type()))
			if g.retTypes == nil {
				g.retTypes = map[string]types.Type{}
			}
			g.retTypes[ev.Name] = c.Signature().Results().At(0).Type()
		}
		cond := "true"
		if ev.When != nil {
			vars := map[string]cval{}
			all := args
			var vals []ssa.Value
			vals = append(vals, c.Args...)
			if c.IsInvoke() {
				all = append([]string{g.val(c.Value)}, args...)
				vals = append([]ssa.Value{c.Value}, c.Args...)
			}
			for i, a := range all {
				vars[fmt.Sprintf("a%d", i)] = cval{term: a, typ: vals[i].Type(), sort: g.s.sortOf(vals[i].Type())}
			}
			for i, r := range results {
				rt := c.Signature().Results().At(i).Type()
				vars[fmt.Sprintf("r%d", i)] = cval{term: r, typ: rt, sort: g.s.sortOf(rt)}
			}
			var pkg *types.Package
			if p, ok := g.eng.AllPkgs[ev.Pkg]; ok {
				pkg = p.Types
			}
			env := &cenv{g: g, vars: vars, cur: g.st, pkg: pkg, ctx: "event " + ev.Name}
			t, err := env.EvalBool(ev.When)
			if err != nil {
				if strings.Contains(err.Error(), "the event never occurs in this function") {
					continue // the predicate compares with the result of a call this function never makes
				}
				g.unsupported("event %s: %v", ev.Name, err)
				continue
			}
			cond = t
		}
		g.eventVars(ev.Name)
		now := g.get(g.st, "G.now")
		cnt := g.get(g.st, "G.cnt."+ev.Name)
		first := g.get(g.st, "G.first."+ev.Name)
		last := g.get(g.st, "G.last."+ev.Name)
		g.set("G.now", fmt.Sprintf("(+ %s 1)", now))
		nn := g.get(g.st, "G.now")
		g.set("G.cnt."+ev.Name, fmt.Sprintf("(ite %s (+ %s 1) %s)", cond, cnt, cnt))
		// since(E, S): an occurrence of S takes a snapshot of E's counter
		for _, e2 := range g.eng.sinceOf(ev.Name) {
			g.eventVars(e2)
			sn := snapVar(e2, ev.Name)
			g.stateVar(sn, "Int")
			g.set(sn, fmt.Sprintf("(ite %s %s %s)", cond, g.get(g.st, "G.cnt."+e2), g.get(g.st, sn)))
		}
		// first(E): time of the first occurrence during this activation
		g.set("G.first."+ev.Name, fmt.Sprintf("(ite (and %s (= %s %s)) %s %s)", cond, cnt, g.get(g.old0, "G.cnt."+ev.Name), nn, first))
		g.set("G.last."+ev.Name, fmt.Sprintf("(ite %s %s %s)", cond, nn, last))
		if !ret {
			// arguments of the last occurrence: lastarg(E, k)
			all := args
			var vals []ssa.Value
			vals = append(vals, c.Args...)
			if c.IsInvoke() {
				all = append([]string{g.val(c.Value)}, args...)
				vals = append([]ssa.Value{c.Value}, c.Args...)
			}
			if g.argTypes == nil {
				g.argTypes = map[string]types.Type{}
			}
			for k, a := range all {
				an := fmt.Sprintf("G.arg.%s.%d", ev.Name, k)
				g.stateVar(an, g.s.sortOf(vals[k].Type()))
				g.argTypes[an] = vals[k].Type()
				g.set(an, fmt.Sprintf("(ite %s %s %s)", cond, a, g.get(g.st, an)))
			}
		}
		if ret && len(results) > 0 {
			rn := "G.ret." + ev.Name
			g.set(rn, fmt.Sprintf("(ite %s %s %s)", cond, results[0], g.get(g.st, rn)))
			fn := "G.fret." + ev.Name
			g.set(fn, fmt.Sprintf("(ite (and %s (= %s %s)) %s %s)", cond, cnt, g.get(g.old0, "G.cnt."+ev.Name), results[0], g.get(g.st, fn)))
		}
	}
}

// libraryFuncField: if v is a load of a struct field of function type and every store to that field in the
// module stores nil or the result of a call to a function outside the module, the field's key is returned.
func (e *Engine) libraryFuncField(v ssa.Value) string {
	ld, ok := v.(*ssa.UnOp)
	if !ok || ld.Op != token.MUL {
		return ""
	}
	fa, ok := ld.X.(*ssa.FieldAddr)
	if !ok {
		return ""
	}
	key := fieldKey(fa)
	found := false
	for _, f := range e.AllFuncs {
		for _, b := range f.Blocks {
			for _, ins := range b.Instrs {
				st, ok := ins.(*ssa.Store)
				if !ok {
					continue
				}
				sfa, ok := st.Addr.(*ssa.FieldAddr)
				if !ok || fieldKey(sfa) != key {
					continue
				}
				found = true
				val := st.Val
				if ct, ok := val.(*ssa.ChangeType); ok {
					val = ct.X
				}
				if ex, ok := val.(*ssa.Extract); ok {
					val = ex.Tuple
				}
				switch x := val.(type) {
				case *ssa.Const:
					continue
				case *ssa.Call:
					if fn := x.Common().StaticCallee(); fn != nil && !e.InModule(fn) {
						continue
					}
				}
				return ""
			}
		}
	}
	if !found {
		return ""
	}
	return key
}

// fieldFuncTargets: if v is a load of a struct field of function type of a module struct and every store to that
// field anywhere in the loaded program stores a closure or a named function (or nil), the functions stored.
// Closed world: the field can only be written by code that was loaded.
func (e *Engine) fieldFuncTargets(v ssa.Value) ([]*ssa.Function, string) {
	ld, ok := v.(*ssa.UnOp)
	if !ok || ld.Op != token.MUL {
		return nil, ""
	}
	fa, ok := ld.X.(*ssa.FieldAddr)
	if !ok {
		return nil, ""
	}
	if _, isFn := ld.Type().Underlying().(*types.Signature); !isFn {
		return nil, ""
	}
	key := fieldKey(fa)
	if e.fieldTargets == nil {
		e.fieldTargets = map[string][]*ssa.Function{}
		e.fieldTargetsBad = map[string]bool{}
		for _, f := range e.AllFuncs {
			for _, b := range f.Blocks {
				for _, ins := range b.Instrs {
					st, ok := ins.(*ssa.Store)
					if !ok {
						continue
					}
					sfa, ok := st.Addr.(*ssa.FieldAddr)
					if !ok {
						continue
					}
					if _, isFn := st.Val.Type().Underlying().(*types.Signature); !isFn {
						continue
					}
					k := fieldKey(sfa)
					val := st.Val
					if ct, ok := val.(*ssa.ChangeType); ok {
						val = ct.X
					}
					switch x := val.(type) {
					case *ssa.Const:
					case *ssa.MakeClosure:
						if fn, ok := x.Fn.(*ssa.Function); ok {
							e.fieldTargets[k] = append(e.fieldTargets[k], fn)
						} else {
							e.fieldTargetsBad[k] = true
						}
					case *ssa.Function:
						e.fieldTargets[k] = append(e.fieldTargets[k], x)
					default:
						e.fieldTargetsBad[k] = true
					}
				}
			}
		}
	}
	if e.fieldTargetsBad[key] || len(e.fieldTargets[key]) == 0 {
		return nil, ""
	}
	// a struct value copied as a whole (*p = *q) would bypass the field stores: only pointer-held module structs
	st := fa.X.Type().Underlying().(*types.Pointer).Elem()
	if n := namedOf(st); n == nil || n.Obj().Pkg() == nil || !strings.HasPrefix(n.Obj().Pkg().Path(), ModPath) {
		return nil, ""
	}
	return e.fieldTargets[key], key
}

func flagHas(list, name string) bool {
	for _, f := range strings.Fields(strings.ReplaceAll(list, ",", " ")) {
		if f == name {
			return true
		}
	}
	return false
}

// applyTerm: apply.<signature>(closure, args...) — the value a pure function value returns
func (g *vcgen) applyTerm(sig *types.Signature, fv string, args []string) string {
	var ps []string
	ps = append(ps, "Int")
	name := "apply"
	for i := 0; i < sig.Params().Len(); i++ {
		srt := g.s.sortOf(sig.Params().At(i).Type())
		ps = append(ps, srt)
		name += "." + strings.Trim(srt, "|")
	}
	rs := g.s.sortOf(sig.Results().At(0).Type())
	name += ".." + strings.Trim(rs, "|")
	fn := q(name)
	g.declareFun(fn, ps, rs)
	return fmt.Sprintf("(%s %s)", fn, strings.Join(append([]string{fv}, args...), " "))
}

// pureClosureAxiom: a closure whose contract is flagged pure behaves like the function its ensures clauses describe,
// for all arguments (captured variables are read at creation time).
func (g *vcgen) pureClosureAxiom(mc *ssa.MakeClosure) {
	fn, ok := mc.Fn.(*ssa.Function)
	if !ok {
		return
	}
	fc := g.eng.ContractOf(fn)
	if fc == nil {
		return
	}
	if _, pure := fc.Flags["pure"]; !pure {
		return
	}
	sig := fn.Signature
	if sig.Results().Len() != 1 {
		return
	}
	var binders, args, binds []string
	for i := 0; i < sig.Params().Len(); i++ {
		sym := q(fmt.Sprintf("pa.%d", i))
		binders = append(binders, fmt.Sprintf("(%s %s)", sym, g.s.sortOf(sig.Params().At(i).Type())))
		args = append(args, sym)
	}
	for _, b := range mc.Bindings {
		binds = append(binds, g.val(b))
	}
	res := g.applyTerm(sig, g.vals[mc], args)
	env := g.contractEnv(fc, fn, sig, args, binds, []string{res}, g.st, g.st)
	for _, e := range fc.Ensures {
		t, err := env.EvalBool(e.Expr)
		if err != nil {
			g.unsupported("pure closure %s: %v", fc.FullName(), err)
			continue
		}
		if len(binders) == 0 {
			g.assume(t)
		} else {
			g.assume(fmt.Sprintf("(forall (%s) %s)", strings.Join(binders, " "), t))
		}
	}
	g.u.UsedContracts[fc.FullName()] = true
}

// sourceNameOf: the source-level variable an SSA value (or the cell it is loaded from) is bound to
func (g *vcgen) sourceNameOf(v ssa.Value) string {
	switch x := v.(type) {
	case *ssa.Parameter:
		return x.Name()
	case *ssa.FreeVar:
		return x.Name()
	case *ssa.UnOp:
		if x.Op == token.MUL {
			if n := g.sourceNameOf(x.X); n != "" {
				return n
			}
		}
	case *ssa.Alloc:
		if x.Comment != "" {
			return x.Comment
		}
	}
	for _, b := range g.fn.Blocks {
		for _, ins := range b.Instrs {
			if dr, ok := ins.(*ssa.DebugRef); ok && dr.X == v {
				if id, ok := dr.Expr.(*ast.Ident); ok {
					return id.Name
				}
			}
		}
	}
	return ""
}

// frameCheckEvent: a function with a modifies clause must declare the ghost events it (or its callees) may emit,
// otherwise callers that count those events would reason with stale counters.
func (g *vcgen) frameCheckEvent(ev string) {
	if !g.frameActive() {
		return
	}
	if g.frameAllowsVar("G.cnt." + ev) {
		return
	}
	g.obligeAt("frame", "event "+ev, "", "false", "the function may emit ghost event "+ev+" but its modifies clause does not list events("+ev+")")
}

// chanFieldAlias: ch is a load of a local variable cell (possibly captured by a closure); if the function that owns the cell stores
// a load of the same cell into a struct field, the channel is known by that field: "<struct type>.<field>"
func chanFieldAlias(ch ssa.Value) string {
	ld, ok := ch.(*ssa.UnOp)
	if !ok || ld.Op != token.MUL {
		return ""
	}
	cell := ld.X
	for depth := 0; depth < 4; depth++ {
		fv, isFV := cell.(*ssa.FreeVar)
		if !isFV {
			break
		}
		fn := fv.Parent()
		parent := fn.Parent()
		if parent == nil {
			return ""
		}
		idx := -1
		for i, v := range fn.FreeVars {
			if v == fv {
				idx = i
			}
		}
		var bound ssa.Value
		for _, b := range parent.Blocks {
			for _, ins := range b.Instrs {
				if mc, ok := ins.(*ssa.MakeClosure); ok && mc.Fn == fn && idx >= 0 && idx < len(mc.Bindings) {
					bound = mc.Bindings[idx]
				}
			}
		}
		if bound == nil {
			return ""
		}
		cell = bound
	}
	al, ok := cell.(*ssa.Alloc)
	if !ok || al.Referrers() == nil {
		return ""
	}
	for _, ref := range *al.Referrers() {
		l, ok := ref.(*ssa.UnOp)
		if !ok || l.Op != token.MUL || l.Referrers() == nil {
			continue
		}
		for _, use := range *l.Referrers() {
			st, ok := use.(*ssa.Store)
			if !ok || st.Val != l {
				continue
			}
			if fa, ok := st.Addr.(*ssa.FieldAddr); ok {
				t := fa.X.Type().Underlying().(*types.Pointer).Elem()
				return typeName(t) + "." + t.Underlying().(*types.Struct).Field(fa.Field).Name()
			}
		}
	}
	return ""
}
