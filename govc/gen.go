package govc

import (
	"os"
	"runtime/debug"
	"fmt"
	"go/token"
	"go/types"
	"math/big"
	"sort"
	"strings"

	"golang.org/x/tools/go/ssa"
)

// Part is one program point at which an obligation has to hold.
type Part struct {
	Prefix  int    // number of unit items asserted before this point
	Goal    string // Bool term that must be valid under the prefix
	Site    string
	Witness []Wit
}

// Wit is a labelled term whose model value is useful for replaying a counterexample.
type Wit struct{ Label, Term string }

// Obligation: a named proof obligation; it holds iff every part holds. Names carry no site ordinals,
// so they are stable when returns or call sites are added or removed.
type Obligation struct {
	Name   string
	Class  string
	Func   string
	Src    string
	Expect string // "valid" (default) or "sat" (vacuity cover: prefix ∧ Goal must be satisfiable)
	Parts  []Part
}

// Unit is the verification condition of one function.
type Unit struct {
	Fn          *ssa.Function
	Name        string
	Sorts       *sorts
	Items       []string
	Obls        []*Obligation
	Warnings    []string
	Assumptions []string
	Unsupported []string
	UsedContracts map[string]bool
	Blocks      int
	Instrs      int
	Safety      bool // panic-freedom obligations were generated for this unit
}

type State struct {
	m      map[string]string
	formal *[]string // when set: reads return formal parameter symbols (used to define recursive spec functions)
}

func (s *State) clone() *State {
	n := &State{m: make(map[string]string, len(s.m))}
	for k, v := range s.m {
		n.m[k] = v
	}
	return n
}

type addrKind int

const (
	addrNone addrKind = iota
	addrField
	addrElem
	addrGlobal
)

type addrInfo struct {
	kind   addrKind
	base   string      // object ref term (field) / slice term or array ref (elem)
	styp   types.Type  // struct type (field)
	field  int         // field index
	idx    string      // element index term
	global *ssa.Global // for addrGlobal
	elemT  types.Type
}

type deferRec struct {
	instr *ssa.Defer
	args  []string
	block *ssa.BasicBlock
	armed string // state var name
	idx   int
}

type retRec struct {
	pc      string
	results []string
	st      *State
}

type lockSnap struct {
	obj string
	st  *State
}

type vcgen struct {
	eng  *Engine
	fn   *ssa.Function
	fc   *FuncContract
	u    *Unit
	s    *sorts
	st   *State // current state
	old  *State // state that old(...) refers to
	pc   string // current path condition
	vals map[ssa.Value]string
	tup  map[ssa.Value][]string
	addr map[ssa.Value]addrInfo

	varSort  map[string]string
	fresh    int
	declared map[string]bool

	blockEntry map[*ssa.BasicBlock]*State
	blockExit  map[*ssa.BasicBlock]*State
	edgeCond   map[[2]int]string
	reach      map[*ssa.BasicBlock]string
	defers     []*deferRec
	rets       []retRec
	exitRes    []string
	dom        map[*ssa.BasicBlock]map[*ssa.BasicBlock]bool
	backEdge   map[[2]int]bool
	loopBody   map[*ssa.BasicBlock]map[*ssa.BasicBlock]bool
	loopSig    map[*ssa.BasicBlock]string
	loopPhiOld map[*ssa.BasicBlock]map[*ssa.Phi]string

	safety     bool
	callOrd    map[string]int
	oblNames   map[string]int
	params     map[string]cval
	sharedCell map[ssa.Value]bool
	sharedSince map[ssa.Value][]ssa.Instruction // the go statements after which a shared cell may change under our feet
	rangeVis   map[ssa.Value]string // range iterator -> visited state var
	curRange   *rangeState          // the map range whose Next was executed last
	feOrd      int                  // ordinal of foreach call sites
	rangeMap   map[ssa.Value]ssa.Value
	embIDs     map[string]int
	inputs     []string
	witness    []Wit

	localCells    []string // terms of local variable cells that never escape to code outside this function
	inClosureCall bool
	havockedEvents map[string]bool // events forgotten while the current call's contract is applied
	stableCells   map[string]bool
	skipArgClosures bool
	localFields   map[string][]string // heap array -> struct variable cells whose fields no callee can write
	clockFloor    string // ghost clock at the start of the call whose effects are being forgotten
	curCall       *ssa.CallCommon // the call being translated (for call-site dependent summaries)
	retTypes  map[string]types.Type
	argTypes  map[string]types.Type
	recSpecs  map[string][]string // recursive spec function -> state variables it takes as extra arguments
	lockSnaps map[string]*State
	closures  map[string]*ssa.MakeClosure
	freshObjs map[string]bool
	old0      *State
	entryEnv  *cenv
	inCallee  bool
	loopInvs  map[*ssa.BasicBlock][]Clause
	inlineStack []*ssa.Function // helpers being translated in place (inline.go)
	entryPC     string          // path condition at the entry of an inlined body ("" = true)
}

func (g *vcgen) emit(s string) { g.u.Items = append(g.u.Items, s) }

func (g *vcgen) warn(f string, a ...interface{}) {
	w := fmt.Sprintf(f, a...)
	for _, x := range g.u.Warnings {
		if x == w {
			return
		}
	}
	g.u.Warnings = append(g.u.Warnings, w)
}

func (g *vcgen) unsupported(f string, a ...interface{}) {
	g.u.Unsupported = append(g.u.Unsupported, fmt.Sprintf(f, a...))
}

func (g *vcgen) declare(name, sort string) string {
	if !g.declared[name] {
		g.declared[name] = true
		g.emit(fmt.Sprintf("(declare-const %s %s)", name, sort))
	}
	return name
}

func (g *vcgen) declareFun(name string, args []string, res string) string {
	if !g.declared[name] {
		g.declared[name] = true
		g.emit(fmt.Sprintf("(declare-fun %s (%s) %s)", name, strings.Join(args, " "), res))
	}
	return name
}

func (g *vcgen) freshConst(hint, sort string) string {
	g.fresh++
	name := q(fmt.Sprintf("%s!%d", hint, g.fresh))
	g.emit(fmt.Sprintf("(declare-const %s %s)", name, sort))
	return name
}

func (g *vcgen) define(hint, sort, term string) string {
	g.fresh++
	name := q(fmt.Sprintf("%s!%d", hint, g.fresh))
	g.emit(fmt.Sprintf("(define-fun %s () %s %s)", name, sort, term))
	return name
}

// assume adds a fact valid under the current path condition.
func (g *vcgen) assume(term string) {
	if term == "true" {
		return
	}
	if g.pc == "true" {
		g.emit("(assert " + term + ")")
	} else {
		g.emit(fmt.Sprintf("(assert (=> %s %s))", g.pc, term))
	}
}

func (g *vcgen) findObl(name string) *Obligation {
	for _, o := range g.u.Obls {
		if o.Name == name {
			return o
		}
	}
	return nil
}

// oblige records a proof obligation "pc => goal" at the current point, then assumes it.
func (g *vcgen) oblige(class, detail, goal, src string) { g.obligeAt(class, detail, "", goal, src) }

func (g *vcgen) obligeAt(class, detail, site, goal, src string) {
	name := g.u.Name + "/" + class
	if detail != "" {
		name += "(" + detail + ")"
	}
	ob := g.findObl(name)
	if ob == nil {
		ob = &Obligation{Name: name, Class: class, Func: g.u.Name, Src: src}
		g.u.Obls = append(g.u.Obls, ob)
	}
	ob.Parts = append(ob.Parts, Part{Prefix: len(g.u.Items), Goal: fmt.Sprintf("(=> %s %s)", g.pc, goal), Site: site,
		Witness: append([]Wit(nil), g.witness...)})
	if g.eng != nil && g.eng.NotAssumed[name] {
		// a recorded finding: the clause is known not to hold; assuming it for the rest of the function would make every later
		// obligation on the paths where it fails vacuously true
		return
	}
	if goal != "false" || class == "safe/unreachable" {
		g.assume(goal)
	}
}

// cover records a vacuity guard: pc ∧ cond must be satisfiable.
func (g *vcgen) cover(detail, cond string) {
	name := g.u.Name + "/vacuity(" + detail + ")"
	ob := &Obligation{Name: name, Class: "vacuity", Func: g.u.Name, Expect: "sat"}
	ob.Parts = []Part{{Prefix: len(g.u.Items), Goal: fmt.Sprintf("(and %s %s)", g.pc, cond)}}
	g.u.Obls = append(g.u.Obls, ob)
}

func (g *vcgen) addWitness(label, term string) { g.witness = append(g.witness, Wit{label, term}) }

// ---- state variables (heap arrays, ghost variables) ----

func (g *vcgen) stateVar(name, sort string) {
	if _, ok := g.varSort[name]; !ok {
		g.varSort[name] = sort
	}
}

func (g *vcgen) base(name string) string {
	sym := q(name + "#0")
	return g.declare(sym, g.varSort[name])
}

func (g *vcgen) get(st *State, name string) string {
	if st.formal != nil {
		found := false
		for _, n := range *st.formal {
			if n == name {
				found = true
			}
		}
		if !found {
			*st.formal = append(*st.formal, name)
		}
		return q("hf." + name)
	}
	if v, ok := st.m[name]; ok {
		return v
	}
	if strings.HasPrefix(name, "old:") {
		return g.base(name[4:])
	}
	return g.base(name)
}

// oldView: the state old(...) refers to at a point whose current state is st. It is the entry state,
// except for monitor-protected fields, whose reference point is the last acquisition of the monitor.
func (g *vcgen) oldView(st *State) *State {
	v := &State{m: map[string]string{}}
	for k, t := range st.m {
		if strings.HasPrefix(k, "old:") {
			v.m[k[4:]] = t
		}
	}
	return v
}

func (g *vcgen) setOld(name, term string) {
	g.varSort["old:"+name] = g.varSort[name]
	g.st.m["old:"+name] = g.define("old."+name, g.varSort[name], term)
}

func (g *vcgen) set(name, term string) {
	// keep terms small: name every new version
	v := g.define(name, g.varSort[name], term)
	g.st.m[name] = v
}

func (g *vcgen) havocVar(name string) string {
	if t := os.Getenv("GOVC_TRACEHAVOC"); t != "" && strings.Contains(name, t) {
		fmt.Fprintf(os.Stderr, "HAVOC %s in %s\n%s\n", name, g.u.Name, debug.Stack())
	}
	v := g.freshConst(name, g.varSort[name])
	g.st.m[name] = v
	return v
}

// heap array for a struct field
func (g *vcgen) fieldArr(st types.Type, idx int) (name string, ft types.Type) {
	s := st.Underlying().(*types.Struct)
	f := s.Field(idx)
	name = "H." + typeName(st) + "." + f.Name()
	g.stateVar(name, fmt.Sprintf("(Array Int %s)", g.s.sortOf(f.Type())))
	return name, f.Type()
}

func (g *vcgen) ptrArr(elem types.Type) string {
	srt := g.s.sortOf(elem)
	name := "P." + strings.Trim(srt, "|")
	g.stateVar(name, fmt.Sprintf("(Array Int %s)", srt))
	return name
}

func (g *vcgen) elemArr(elem types.Type) string {
	srt := g.s.sortOf(elem)
	name := "E." + strings.Trim(srt, "|")
	g.stateVar(name, fmt.Sprintf("(Array Int (Array Int %s))", srt))
	return name
}

func (g *vcgen) mapArrs(m *types.Map) (has, val, ln string) {
	ks, vs := g.s.sortOf(m.Key()), g.s.sortOf(m.Elem())
	tag := strings.Trim(ks, "|") + "." + strings.Trim(vs, "|")
	has, val, ln = "MH."+tag, "MV."+tag, "ML."+tag
	g.stateVar(has, fmt.Sprintf("(Array Int (Array %s Bool))", ks))
	g.stateVar(val, fmt.Sprintf("(Array Int (Array %s %s))", ks, vs))
	g.stateVar(ln, "(Array Int Int)")
	return
}

// emb: address of an embedded (by-value) struct or opaque field inside an object
func (g *vcgen) emb(st types.Type, field string, base string) string {
	fn := q("emb." + typeName(st) + "." + field)
	inv := q("embinv." + typeName(st) + "." + field)
	g.declareFun(fn, []string{"Int"}, "Int")
	g.declareFun(inv, []string{"Int"}, "Int")
	g.declareFun("embid", []string{"Int"}, "Int")
	id, ok := g.embIDs[fn]
	if !ok {
		id = len(g.embIDs) + 1
		g.embIDs[fn] = id
	}
	t := fmt.Sprintf("(%s %s)", fn, base)
	g.emit(fmt.Sprintf("(assert (and (< %s 0) (= (%s %s) %s) (= (embid %s) %d)))", t, inv, t, base, t, id))
	if g.freshObjs[base] {
		g.freshObjs[t] = true // a part of an object allocated by this call
	}
	return t
}

// ---- type-driven assumptions on values read from inputs / heap / havoc ----

func (g *vcgen) typeFacts(term string, t types.Type, alloc string) string {
	switch u := t.Underlying().(type) {
	case *types.Basic:
		if lo, hi, ok := intRange(t); ok {
			return fmt.Sprintf("(and (<= %s %s) (<= %s %s))", intLit(lo), term, term, intLit(hi))
		}
		_ = u
	case *types.Pointer, *types.Map, *types.Chan, *types.Signature:
		return fmt.Sprintf("(<= %s %s)", term, alloc)
	case *types.Interface:
		return fmt.Sprintf("(and (<= (ival %s) %s) (>= (itag %s) 0) (=> (= (itag %s) 0) (= (ival %s) 0)))", term, alloc, term, term, term)
	case *types.Slice:
		return fmt.Sprintf("(and (<= (sarr %s) %s) (<= 0 (soff %s)) (<= 0 (slen %s)) (<= (slen %s) (scap %s)) (<= (scap %s) 281474976710656) (=> (= (sarr %s) 0) (= (scap %s) 0)))", term, alloc, term, term, term, term, term, term, term)
	case *types.Struct:
		if isDecomposedStruct(t) {
			var fs []string
			for i := 0; i < u.NumFields(); i++ {
				f := u.Field(i)
				sub := g.typeFacts(fmt.Sprintf("(%s %s)", g.s.structAcc(t, f.Name()), term), f.Type(), alloc)
				if sub != "true" {
					fs = append(fs, sub)
				}
			}
			if len(fs) == 0 {
				return "true"
			}
			g.s.sortOf(t)
			return "(and " + strings.Join(fs, " ") + ")"
		}
	}
	if b, ok := t.Underlying().(*types.Basic); ok && b.Info()&types.IsString != 0 {
		return "true"
	}
	return "true"
}

func (g *vcgen) assumeType(term string, t types.Type) {
	f := g.typeFacts(term, t, g.get(g.st, "G.alloc"))
	if f != "true" {
		g.assume(f)
	}
}

func (g *vcgen) freshOfType(hint string, t types.Type) string {
	v := g.freshConst(hint, g.s.sortOf(t))
	g.assumeType(v, t)
	return v
}

// ---- values ----

func (g *vcgen) val(v ssa.Value) string {
	if t, ok := g.vals[v]; ok {
		return t
	}
	switch x := v.(type) {
	case *ssa.Const:
		t := g.s.constTerm(x.Value, x.Type())
		return t
	case *ssa.Global:
		return g.globalAddr(x)
	case *ssa.Function:
		return g.funcRef(x)
	case *ssa.Builtin:
		return "0"
	case *ssa.FieldAddr:
		// address used as a value: materialise
		return g.materialiseAddr(x)
	}
	g.warn("value %s (%T) used before definition; treated as arbitrary", v.Name(), v)
	t := g.freshConst("undef."+v.Name(), g.s.sortOf(v.Type()))
	g.vals[v] = t
	return t
}

func (g *vcgen) funcRef(f *ssa.Function) string {
	name := q("fn." + f.String())
	if !g.declared[name] {
		g.declare(name, "Int")
		g.emit(fmt.Sprintf("(assert (and (> %s 0) (< %s 1000)))", name, name))
	}
	return name
}

func (g *vcgen) globalAddr(x *ssa.Global) string {
	name := q("glob." + x.Pkg.Pkg.Path() + "." + x.Name())
	if !g.declared[name] {
		g.declare(name, "Int")
		// globals live in 1..1000; distinctness is asserted pairwise lazily through a unique id function
		g.declareFun("globid", []string{"Int"}, "Int")
		id := len(g.embIDs) + 1000 + g.fresh
		g.fresh++
		g.emit(fmt.Sprintf("(assert (and (> %s 0) (< %s 1000) (= (globid %s) %d)))", name, name, name, id))
	}
	return name
}

func (g *vcgen) materialiseAddr(x *ssa.FieldAddr) string {
	st := x.X.Type().Underlying().(*types.Pointer).Elem()
	f := st.Underlying().(*types.Struct).Field(x.Field)
	return g.emb(st, f.Name(), g.val(x.X))
}

func (g *vcgen) setVal(v ssa.Value, term string) {
	srt := g.s.sortOf(v.Type())
	name := q("v." + v.Name())
	if g.declared[name] {
		name = q(fmt.Sprintf("v.%s.%d", v.Name(), g.fresh))
		g.fresh++
	}
	g.declared[name] = true
	g.emit(fmt.Sprintf("(define-fun %s () %s %s)", name, srt, term))
	g.vals[v] = name
}

func (g *vcgen) setValFresh(v ssa.Value) string {
	srt := g.s.sortOf(v.Type())
	name := q("v." + v.Name())
	if g.declared[name] {
		name = q(fmt.Sprintf("v.%s.%d", v.Name(), g.fresh))
		g.fresh++
	}
	g.declared[name] = true
	g.emit(fmt.Sprintf("(declare-const %s %s)", name, srt))
	g.vals[v] = name
	g.assumeType(name, v.Type())
	return name
}

// ---- integer arithmetic with wrap-around ----

func wrapTerm(term string, t types.Type) string {
	lo, hi, ok := intRange(t)
	if !ok {
		return term
	}
	size := new(big.Int).Add(new(big.Int).Sub(hi, lo), big.NewInt(1))
	// ((term - lo) mod size) + lo
	if lo.Sign() == 0 {
		return fmt.Sprintf("(mod %s %s)", term, size.String())
	}
	return fmt.Sprintf("(+ (mod (- %s %s) %s) %s)", term, intLit(lo), size.String(), intLit(lo))
}

func wrapAddSub(term string, t types.Type) string {
	lo, hi, ok := intRange(t)
	if !ok {
		return term
	}
	size := new(big.Int).Add(new(big.Int).Sub(hi, lo), big.NewInt(1))
	return fmt.Sprintf("(let ((x!w %s)) (ite (> x!w %s) (- x!w %s) (ite (< x!w %s) (+ x!w %s) x!w)))", term, intLit(hi), size.String(), intLit(lo), size.String())
}

func (g *vcgen) binop(x *ssa.BinOp) string {
	a, b := g.val(x.X), g.val(x.Y)
	t := x.X.Type()
	srt := g.s.sortOf(t)
	if srt == "Slice" && (x.Op == token.EQL || x.Op == token.NEQ) {
		// slices are only comparable with nil: nil-ness is the array pointer being nil
		other := a
		if c, ok := x.X.(*ssa.Const); ok && c.Value == nil {
			other = b
		}
		t := fmt.Sprintf("(= (sarr %s) 0)", other)
		if x.Op == token.NEQ {
			return "(not " + t + ")"
		}
		return t
	}
	switch x.Op {
	case token.EQL:
		return fmt.Sprintf("(= %s %s)", a, b)
	case token.NEQ:
		return fmt.Sprintf("(not (= %s %s))", a, b)
	}
	switch srt {
	case "Bool":
		switch x.Op {
		case token.LAND, token.AND:
			return fmt.Sprintf("(and %s %s)", a, b)
		case token.LOR, token.OR:
			return fmt.Sprintf("(or %s %s)", a, b)
		}
	case "String":
		switch x.Op {
		case token.ADD:
			return fmt.Sprintf("(str.++ %s %s)", a, b)
		case token.LSS:
			return fmt.Sprintf("(str.< %s %s)", a, b)
		case token.LEQ:
			return fmt.Sprintf("(str.<= %s %s)", a, b)
		case token.GTR:
			return fmt.Sprintf("(str.< %s %s)", b, a)
		case token.GEQ:
			return fmt.Sprintf("(str.<= %s %s)", b, a)
		}
	case "Int":
		switch x.Op {
		case token.ADD:
			return wrapAddSub(fmt.Sprintf("(+ %s %s)", a, b), t)
		case token.SUB:
			return wrapAddSub(fmt.Sprintf("(- %s %s)", a, b), t)
		case token.MUL:
			return wrapTerm(fmt.Sprintf("(* %s %s)", a, b), t)
		case token.QUO:
			// Go truncates toward zero; SMT div floors for positive divisor
			return fmt.Sprintf("(let ((a!q %s) (b!q %s)) (ite (= b!q 0) 0 (ite (>= a!q 0) (ite (> b!q 0) (div a!q b!q) (- (div a!q (- b!q)))) (ite (> b!q 0) (- (div (- a!q) b!q)) (div (- a!q) (- b!q))))))", a, b)
		case token.REM:
			return fmt.Sprintf("(let ((a!q %s) (b!q %s)) (ite (= b!q 0) 0 (ite (>= a!q 0) (mod a!q (abs b!q)) (- (mod (- a!q) (abs b!q))))))", a, b)
		case token.LSS:
			return fmt.Sprintf("(< %s %s)", a, b)
		case token.LEQ:
			return fmt.Sprintf("(<= %s %s)", a, b)
		case token.GTR:
			return fmt.Sprintf("(> %s %s)", a, b)
		case token.GEQ:
			return fmt.Sprintf("(>= %s %s)", a, b)
		case token.SHL:
			if c, ok := x.Y.(*ssa.Const); ok {
				if n, ok2 := constInt(c); ok2 && n >= 0 && n < 63 {
					return wrapTerm(fmt.Sprintf("(* %s %d)", a, int64(1)<<uint(n)), t)
				}
			}
		case token.SHR:
			if c, ok := x.Y.(*ssa.Const); ok {
				if n, ok2 := constInt(c); ok2 && n >= 0 && n < 63 {
					return fmt.Sprintf("(div %s %d)", a, int64(1)<<uint(n))
				}
			}
		}
	case "F64":
		fnName := q("f64." + x.Op.String())
		switch x.Op {
		case token.LSS, token.LEQ, token.GTR, token.GEQ:
			g.declareFun(fnName, []string{"F64", "F64"}, "Bool")
		default:
			g.declareFun(fnName, []string{"F64", "F64"}, "F64")
		}
		return fmt.Sprintf("(%s %s %s)", fnName, a, b)
	}
	// unmodelled operator: uninterpreted function of the operands
	rs := g.s.sortOf(x.Type())
	fnName := q("op." + x.Op.String() + "." + strings.Trim(srt, "|"))
	g.declareFun(fnName, []string{srt, g.s.sortOf(x.Y.Type())}, rs)
	g.warn("operator %s on %s is uninterpreted", x.Op, t)
	return fmt.Sprintf("(%s %s %s)", fnName, a, b)
}

func constInt(c *ssa.Const) (int64, bool) {
	if c.Value == nil {
		return 0, false
	}
	if b, ok := c.Type().Underlying().(*types.Basic); !ok || b.Info()&types.IsInteger == 0 {
		return 0, false
	}
	return c.Int64(), true
}

// ---- CFG analysis ----

func (g *vcgen) analyseCFG() []*ssa.BasicBlock {
	fn := g.fn
	// reachable blocks from entry (skip the recover block)
	seen := map[*ssa.BasicBlock]bool{}
	var post []*ssa.BasicBlock
	var dfs func(b *ssa.BasicBlock)
	dfs = func(b *ssa.BasicBlock) {
		seen[b] = true
		for _, s := range b.Succs {
			if !seen[s] {
				dfs(s)
			}
		}
		post = append(post, b)
	}
	dfs(fn.Blocks[0])
	// dominators via ssa's tree
	g.dom = map[*ssa.BasicBlock]map[*ssa.BasicBlock]bool{}
	for _, b := range post {
		d := map[*ssa.BasicBlock]bool{}
		for x := b; x != nil; x = x.Idom() {
			d[x] = true
		}
		g.dom[b] = d
	}
	g.backEdge = map[[2]int]bool{}
	g.loopBody = map[*ssa.BasicBlock]map[*ssa.BasicBlock]bool{}
	for _, b := range post {
		for _, s := range b.Succs {
			if g.dom[b][s] { // s dominates b: back edge
				g.backEdge[[2]int{b.Index, s.Index}] = true
				body := g.loopBody[s]
				if body == nil {
					body = map[*ssa.BasicBlock]bool{s: true}
					g.loopBody[s] = body
				}
				// natural loop: nodes that reach b without passing s
				var stack []*ssa.BasicBlock
				if !body[b] {
					body[b] = true
					stack = append(stack, b)
				}
				for len(stack) > 0 {
					x := stack[len(stack)-1]
					stack = stack[:len(stack)-1]
					for _, p := range x.Preds {
						if seen[p] && !body[p] {
							body[p] = true
							stack = append(stack, p)
						}
					}
				}
			}
		}
	}
	// topological order ignoring back edges
	indeg := map[*ssa.BasicBlock]int{}
	for _, b := range post {
		for _, s := range b.Succs {
			if !g.backEdge[[2]int{b.Index, s.Index}] {
				indeg[s]++
			}
		}
	}
	var order []*ssa.BasicBlock
	var ready []*ssa.BasicBlock
	ready = append(ready, fn.Blocks[0])
	for len(ready) > 0 {
		sort.Slice(ready, func(i, j int) bool { return ready[i].Index < ready[j].Index })
		b := ready[0]
		ready = ready[1:]
		order = append(order, b)
		for _, s := range b.Succs {
			if g.backEdge[[2]int{b.Index, s.Index}] || !seen[s] {
				continue
			}
			indeg[s]--
			if indeg[s] == 0 {
				ready = append(ready, s)
			}
		}
	}
	return order
}

// variables (state vars) possibly modified inside a loop: computed by a dry scan of the loop's instructions
func (g *vcgen) loopModified(h *ssa.BasicBlock) (vars map[string]bool, all bool) {
	vars = map[string]bool{}
	for b := range g.loopBody[h] {
		for _, ins := range b.Instrs {
			eff := g.eng.instrEffects(ins, g)
			if eff.All {
				all = true
			}
			for v := range eff.Vars {
				vars[v] = true
			}
		}
	}
	return
}
