package govc

// Iteration through a callback ("Visit"): the contract flag
//
//	//@   foreach cb over m.byName
//
// on a function F says: F calls its function parameter cb exactly once for every key of the map m.byName (as it is
// when F starts), with the value stored under that key as the argument, and does nothing else outside its frame.
// F's own unit proves this (obligations foreach/arg, foreach/map and foreach/each-once, relative to a callback that
// leaves the iterated map alone). A caller that passes a closure it created itself treats the call like a range
// loop over that map whose body is the closure: the invariant comes from the caller's contract,
//
//	//@   loop visit s.externalAgents: invariant <expr over visited[k], card(visited), captured variables>
//
// and is proved on entry (nothing visited), preserved by one application of the closure's contract to an arbitrary
// unvisited key, and assumed afterwards with every key visited. That the closure leaves the iterated map unchanged
// is an obligation at the call site (foreach/map-unchanged).

import (
	"fmt"
	"go/ast"
	"go/token"
	"go/types"
	"sort"
	"strings"

	"golang.org/x/tools/go/ssa"
)

type rangeState struct {
	rng     *ssa.Range
	ok, k, v string
	m       string
	mt      *types.Map
}

func parseForeach(flag string) (param, mapExpr string, ok bool) {
	parts := strings.SplitN(strings.TrimSpace(flag), " over ", 2)
	if len(parts) != 2 {
		return "", "", false
	}
	return strings.TrimSpace(parts[0]), strings.TrimSpace(parts[1]), true
}

const feCalls = "G.fecalls"

// foreachMap: the map object F iterates (evaluated in F's entry state) and its type
func (g *vcgen) foreachEntryMap() (cval, bool) {
	_, mexpr, ok := parseForeach(g.fc.Flags["foreach"])
	if !ok {
		g.unsupported("foreach: expected '<param> over <map expression>'")
		return cval{}, false
	}
	e, err := ParseCExpr(mexpr)
	if err != nil {
		g.unsupported("foreach: %v", err)
		return cval{}, false
	}
	mv, err := g.entryEnv.Eval(e)
	if err != nil {
		g.unsupported("foreach: %v", err)
		return cval{}, false
	}
	if _, isMap := mv.typ.Underlying().(*types.Map); !isMap {
		g.unsupported("foreach: %s is not a map", mexpr)
		return cval{}, false
	}
	return mv, true
}

// foreachParamCall: inside F, a call of the callback parameter
func (g *vcgen) foreachParamCall(par *ssa.Parameter, c *ssa.CallCommon, args []string) []string {
	mv, ok := g.foreachEntryMap()
	if !ok {
		g.havocAll()
		return g.freshResults(c.Signature())
	}
	mt := mv.typ.Underlying().(*types.Map)
	ks := g.s.sortOf(mt.Key())
	g.stateVar(feCalls, fmt.Sprintf("(Array %s Int)", ks))
	site := g.callSite("foreach " + par.Name())
	cur := g.curRange
	if cur == nil || len(args) != 1 {
		g.obligeAt("foreach/arg", par.Name(), site, "false", "the callback is called with the value of the current iteration of a range over the iterated map")
		g.havocAll()
		return g.freshResults(c.Signature())
	}
	g.obligeAt("foreach/map", par.Name(), site, fmt.Sprintf("(= %s %s)", cur.m, mv.term), "the range is over the map named by the foreach clause, as it was on entry")
	g.obligeAt("foreach/arg", par.Name(), site, fmt.Sprintf("(and %s (= %s %s))", cur.ok, args[0], cur.v), "the callback is called with the value of the current iteration")
	calls := g.get(g.st, feCalls)
	g.set(feCalls, fmt.Sprintf("(store %s %s (+ (select %s %s) 1))", calls, cur.k, calls, cur.k))
	// the callback may do anything, except change the map being iterated (its callers prove that)
	has, val, ln := g.mapArrs(mt)
	rows := map[string]string{}
	for _, arr := range []string{has, val, ln} {
		rows[arr] = g.define("fe.row", arrayElemSort(g.varSort[arr]), fmt.Sprintf("(select %s %s)", g.get(g.st, arr), mv.term))
	}
	g.havocAll()
	for _, arr := range []string{has, val, ln} {
		g.assume(fmt.Sprintf("(= (select %s %s) %s)", g.get(g.st, arr), mv.term, rows[arr]))
	}
	return g.freshResults(c.Signature())
}

// foreachExit: F called the callback exactly once per key of the entry map
func (g *vcgen) foreachExit() {
	mv, ok := g.foreachEntryMap()
	if !ok {
		return
	}
	mt := mv.typ.Underlying().(*types.Map)
	ks := g.s.sortOf(mt.Key())
	g.stateVar(feCalls, fmt.Sprintf("(Array %s Int)", ks))
	has, _, _ := g.mapArrs(mt)
	hasRow := fmt.Sprintf("(select %s %s)", g.get(g.old0, has), mv.term)
	goal := fmt.Sprintf("(forall ((k!fe %s)) (= (select %s k!fe) (ite (and (not (= %s 0)) (select %s k!fe)) 1 0)))", ks, g.get(g.st, feCalls), mv.term, hasRow)
	g.oblige("foreach/each-once", "", goal, "the callback is called exactly once for every key of the iterated map and never otherwise")
}

// ---- caller side ----

// recvText: source text of the receiver (or first argument) expression of the call at pos
func (g *vcgen) callRecvText(pos token.Pos) string {
	syn := g.fn.Syntax()
	if syn == nil || pos == token.NoPos {
		return ""
	}
	out := ""
	ast.Inspect(syn, func(n ast.Node) bool {
		ce, ok := n.(*ast.CallExpr)
		if !ok || ce.Lparen != pos {
			return true
		}
		if se, ok := ce.Fun.(*ast.SelectorExpr); ok {
			out = exprText(g.eng.Prog.Fset, se.X)
		}
		return false
	})
	return out
}

// siteEnv: an environment for invariants written at a call site: parameters, results of the entry environment and
// the local variables of the function that live in cells (captured variables), by their source names
func (g *vcgen) siteEnv(clauses []Clause) *cenv {
	env := *g.entryEnv
	env.vars = map[string]cval{}
	for k, v := range g.entryEnv.vars {
		env.vars[k] = v
	}
	env.cur = g.st
	env.old = g.oldView(g.st)
	for _, c := range clauses {
		for _, id := range freeIdents(c.Expr) {
			if _, ok := env.vars[id]; ok {
				continue
			}
			for _, b := range g.fn.Blocks {
				for _, ins := range b.Instrs {
					if al, ok := ins.(*ssa.Alloc); ok && al.Comment == id {
						if addr, known := g.vals[al]; known {
							et := al.Type().Underlying().(*types.Pointer).Elem()
							env.vars[id] = cval{term: g.loadPtr(g.st, addr, et), typ: et, sort: g.s.sortOf(et), cell: addr}
						}
					}
				}
			}
		}
	}
	return &env
}

// totallen: the sum of the lengths of the elements of a []string, as a function of the slice's backing row, offset and
// length (uninterpreted; the instances that are true of sums are emitted at append and where the function is used)
func (g *vcgen) totalLenFun() string {
	name := q("totallen.str")
	g.declareFun(name, []string{"(Array Int String)", "Int", "Int"}, "Int")
	return name
}

func (g *vcgen) cardFun(keySort string) string {
	name := q("card." + strings.Trim(keySort, "|"))
	g.declareFun(name, []string{fmt.Sprintf("(Array %s Bool)", keySort)}, "Int")
	return name
}

func (g *vcgen) applyForeach(fc *FuncContract, fn *ssa.Function, args, binds []string, c *ssa.CallCommon) []string {
	pname, mexpr, ok := parseForeach(fc.Flags["foreach"])
	name := FullName(fn)
	short := shortName(name)
	if !ok {
		g.unsupported("foreach flag of %s", name)
		return g.freshResults(fn.Signature)
	}
	idx := -1
	for i, p := range fn.Params {
		if p.Name() == pname {
			idx = i
		}
	}
	if idx < 0 || idx >= len(c.Args) {
		g.unsupported("foreach %s on %s: no such parameter", pname, name)
		return g.freshResults(fn.Signature)
	}
	// F's own part: preconditions, frame (before)
	own := *fc
	own.Ensures = nil
	g.skipArgClosures = true
	g.applyContract(&own, fn, fn.Signature, args, binds, name)
	g.skipArgClosures = false
	me, err := ParseCExpr(mexpr)
	var mv cval
	if err == nil {
		mv, err = g.contractEnv(fc, fn, fn.Signature, args, binds, nil, g.st, nil).Eval(me)
	}
	if err != nil {
		g.unsupported("foreach of %s: %v", name, err)
		g.havocAll()
		return g.freshResults(fn.Signature)
	}
	mt, isMap := mv.typ.Underlying().(*types.Map)
	mc := g.originClosure(c.Args[idx])
	if !isMap || mc == nil {
		g.warn("%s iterates with a function value of unknown origin (%s): all state havocked", short, origin(c.Args[idx]))
		g.havocAll()
		return g.freshResults(fn.Signature)
	}
	cfn := mc.Fn.(*ssa.Function)
	var cb []string
	for _, bv := range mc.Bindings {
		cb = append(cb, g.val(bv))
	}
	// the invariant for this call site
	g.feOrd++
	recv := g.callRecvText(c.Pos())
	var invs []Clause
	sig := fmt.Sprintf("visit#%d", g.feOrd)
	if g.fc != nil {
		if l, ok := g.fc.Loops["visit "+recv]; ok && recv != "" {
			invs, sig = l, "visit "+recv
		} else if l, ok := g.fc.Loops[sig]; ok {
			invs = l
		}
	}
	// ghost arrays of this loop (witness functions kept up to date by step clauses)
	type ghostVar struct{ name, state, sort string }
	var ghosts []ghostVar
	var steps []LoopStep
	if g.fc != nil {
		pe := &cenv{g: g, vars: map[string]cval{}, cur: g.st, pkg: g.entryEnv.pkg, ctx: g.u.Name + " loop " + sig}
		for _, gh := range g.fc.LoopGhosts[sig] {
			ksrt, kt := pe.sortOfTypeName(gh.Key)
			vsrt, vt := pe.sortOfTypeName(gh.Val)
			if kt == nil || vt == nil {
				g.unsupported("loop %s: ghost %s: unknown type", sig, gh.Name)
				continue
			}
			gv := ghostVar{gh.Name, fmt.Sprintf("G.lg.%d.%s", g.feOrd, gh.Name), fmt.Sprintf("(Array %s %s)", ksrt, vsrt)}
			g.stateVar(gv.state, gv.sort)
			g.set(gv.state, g.freshConst("lg."+gh.Name, gv.sort))
			ghosts = append(ghosts, gv)
		}
		steps = g.fc.LoopSteps[sig]
	}
	bindGhosts := func(env *cenv) {
		for _, gv := range ghosts {
			env.vars[gv.name] = cval{term: g.get(g.st, gv.state), sort: gv.sort}
		}
	}
	ks, vs := g.s.sortOf(mt.Key()), g.s.sortOf(mt.Elem())
	visSort := fmt.Sprintf("(Array %s Bool)", ks)
	has, val, ln := g.mapArrs(mt)
	hasRow := g.define("fe.has", visSort, fmt.Sprintf("(ite (= %s 0) ((as const %s) false) (select %s %s))", mv.term, visSort, g.get(g.st, has), mv.term))
	valRow := g.define("fe.val", fmt.Sprintf("(Array %s %s)", ks, vs), fmt.Sprintf("(select %s %s)", g.get(g.st, val), mv.term))
	lenM := g.define("fe.len", "Int", fmt.Sprintf("(ite (= %s 0) 0 (select %s %s))", mv.term, g.get(g.st, ln), mv.term))
	card := g.cardFun(ks)
	g.emit(fmt.Sprintf("(assert (and (<= 0 %s) (<= %s 281474976710656)))", lenM, lenM)) // address-space bound, as for slices
	evalInv := func(vis string, f func(i int, inv Clause, t string)) {
		env := g.siteEnv(invs)
		env.vars["visited"] = cval{term: vis, sort: visSort}
		bindGhosts(env)
		env.ctx = g.u.Name + " loop " + sig
		for i, inv := range invs {
			t, err := env.EvalBool(inv.Expr)
			if err != nil {
				g.unsupported("loop invariant %s: %v", sig, err)
				continue
			}
			f(i, inv, t)
		}
	}
	// 1. nothing visited yet
	empty := fmt.Sprintf("((as const %s) false)", visSort)
	g.emit(fmt.Sprintf("(assert (= (%s %s) 0))", card, empty))
	evalInv(empty, func(i int, inv Clause, t string) { g.oblige("inv", sig+":"+clauseLabel(inv, i)+"/init", t, inv.Src) })
	// 2. an arbitrary iteration: forget what the closure may change, assume the invariant for some visited set
	forget := func() {
		for _, gv := range ghosts {
			g.set(gv.state, g.freshConst("lg."+gv.name, gv.sort))
		}
		if cc := g.eng.ContractOf(cfn); cc != nil && cc.HasModifies {
			fr := *cc
			fr.Requires, fr.Ensures = nil, nil
			g.applyContract(&fr, cfn, cfn.Signature, []string{g.freshOfType("cbarg", mt.Elem())}, cb, FullName(cfn))
		} else {
			g.inClosureCall = true
			g.havocEffectsOf(g.eng.FuncEffects(cfn), shortName(FullName(cfn)))
			g.inClosureCall = false
		}
	}
	before := g.st.clone()
	savedPC := g.pc
	iter := g.freshConst("fe.iter", "Bool")
	g.pc = fmt.Sprintf("(and %s %s)", savedPC, iter)
	forget()
	vis := g.freshConst("fe.visited", visSort)
	k := g.freshConst("fe.k", ks)
	g.assume(fmt.Sprintf("(forall ((k!fe %s)) (=> (select %s k!fe) (select %s k!fe)))", ks, vis, hasRow))
	g.assume(fmt.Sprintf("(and (select %s %s) (not (select %s %s)))", hasRow, k, vis, k))
	g.assume(fmt.Sprintf("(and (>= (%s %s) 0) (<= (+ (%s %s) 1) %s))", card, vis, card, vis, lenM))
	evalInv(vis, func(i int, inv Clause, t string) { g.assume(t) })
	v := g.define("fe.v", vs, fmt.Sprintf("(select %s %s)", valRow, k))
	g.assumeType(v, mt.Elem())
	g.assumeType(k, mt.Key())
	g.cover("iteration:"+sig, "true")
	preIter := g.st.clone()
	g.applyFunc(nil, cfn, []string{v}, cb, nil)
	for _, stp := range steps {
		env := g.siteEnv([]Clause{{Expr: stp.Cond}, {Expr: stp.Index}, {Expr: stp.Val}})
		bindGhosts(env)
		env.prev = preIter
		env.vars["key"] = cval{term: k, typ: mt.Key(), sort: ks}
		env.vars["value"] = cval{term: v, typ: mt.Elem(), sort: vs}
		env.ctx = g.u.Name + " loop " + sig + " step"
		var gv *ghostVar
		for i := range ghosts {
			if ghosts[i].name == stp.Ghost {
				gv = &ghosts[i]
			}
		}
		if gv == nil {
			g.unsupported("loop %s: step assigns to undeclared ghost %s", sig, stp.Ghost)
			continue
		}
		c, err1 := env.EvalBool(stp.Cond)
		ix, err2 := env.Eval(stp.Index)
		vl, err3 := env.Eval(stp.Val)
		if err1 != nil || err2 != nil || err3 != nil {
			g.unsupported("loop %s: step %s: %v %v %v", sig, stp.Src, err1, err2, err3)
			continue
		}
		cur := g.get(g.st, gv.state)
		g.set(gv.state, fmt.Sprintf("(ite %s (store %s %s %s) %s)", c, cur, ix.term, vl.term, cur))
	}
	g.oblige("foreach/map-unchanged", sig, fmt.Sprintf("(and (= (select %s %s) %s) (= (select %s %s) %s))", g.get(g.st, has), mv.term, hasRow, g.get(g.st, val), mv.term, valRow),
		"the callback leaves the iterated map unchanged")
	vis2 := g.define("fe.visited", visSort, fmt.Sprintf("(store %s %s true)", vis, k))
	g.assume(fmt.Sprintf("(= (%s %s) (+ (%s %s) 1))", card, vis2, card, vis))
	evalInv(vis2, func(i int, inv Clause, t string) { g.oblige("inv", sig+":"+clauseLabel(inv, i)+"/pres", t, inv.Src) })
	// 3. after the last iteration: every key visited
	g.pc = savedPC
	g.st = before
	forget()
	g.emit(fmt.Sprintf("(assert (= (%s %s) %s))", card, hasRow, lenM))
	evalInv(hasRow, func(i int, inv Clause, t string) { g.assume(t) })
	// F's own frame again (after)
	own.Requires = nil
	g.skipArgClosures = true
	g.applyContract(&own, fn, fn.Signature, args, binds, name)
	g.skipArgClosures = false
	return g.freshResults(fn.Signature)
}

var _ = sort.Strings

// ---- preconditions of closures that leave the function or are handed to library code ----

// stableClause: the clause constrains captured values only (identifiers, nil, comparisons, && || !): it cannot
// change after the closure was created when those variables are captured by value
func stableClause(e *CExpr) bool {
	switch e.Op {
	case "id", "num", "str":
		return true
	case "un":
		return e.Name == "!" && stableClause(e.Args[0])
	case "bin":
		switch e.Name {
		case "&&", "||", "==", "!=", "==>":
			return stableClause(e.Args[0]) && stableClause(e.Args[1])
		}
	}
	return false
}

// closureCreated: the requires clauses of the closure that speak only about variables it captures by value are proved
// where it is created (they hold for ever after); this is what a closure that is returned or stored can rely on
func (g *vcgen) closureCreated(mc *ssa.MakeClosure) {
	fn, ok := mc.Fn.(*ssa.Function)
	if !ok {
		return
	}
	fc := g.eng.ContractOf(fn)
	if fc == nil || len(fc.Requires) == 0 {
		return
	}
	byValue := map[string]bool{}
	for i, fv := range fn.FreeVars {
		if i < len(mc.Bindings) {
			if _, isCell := mc.Bindings[i].(*ssa.Alloc); !isCell {
				byValue[fv.Name()] = true
			}
		}
	}
	var binds []string
	for _, bv := range mc.Bindings {
		binds = append(binds, g.val(bv))
	}
	var args []string
	for _, p := range fn.Params {
		args = append(args, g.freshOfType("cbarg", p.Type()))
	}
	env := g.contractEnv(fc, fn, fn.Signature, args, binds, nil, g.st, nil)
	site := g.callSite("closure " + shortName(FullName(fn)))
	for i, r := range fc.Requires {
		if !stableClause(r.Expr) {
			continue
		}
		okIDs := true
		for _, id := range freeIdents(r.Expr) {
			if !byValue[id] && id != "nil" && id != "true" && id != "false" {
				okIDs = false
			}
		}
		if !okIDs {
			continue
		}
		t, err := env.EvalBool(r.Expr)
		if err != nil {
			continue
		}
		g.obligeAt("pre", "closure "+shortName(FullName(fn))+":"+clauseLabel(r, i), site, t, r.Src)
	}
}

// closureHandedOver: a closure passed to library code (sync.Once.Do, http handlers, ...): its whole precondition is
// proved where it is handed over, for arbitrary arguments; that the library calls it before anything else changes the
// state is an assumption (noted)
func (g *vcgen) closureHandedOver(mc *ssa.MakeClosure, to string) {
	fn, ok := mc.Fn.(*ssa.Function)
	if !ok {
		return
	}
	fc := g.eng.ContractOf(fn)
	if fc == nil || len(fc.Requires) == 0 {
		return
	}
	var binds []string
	for _, bv := range mc.Bindings {
		binds = append(binds, g.val(bv))
	}
	var args []string
	for _, p := range fn.Params {
		args = append(args, g.freshOfType("cbarg", p.Type()))
	}
	env := g.contractEnv(fc, fn, fn.Signature, args, binds, nil, g.st, nil)
	site := g.callSite("handover " + shortName(FullName(fn)))
	for i, r := range fc.Requires {
		t, err := env.EvalBool(r.Expr)
		if err != nil {
			g.unsupported("requires of %s: %v", FullName(fn), err)
			continue
		}
		g.obligeAt("pre", "closure "+shortName(FullName(fn))+" handed to "+to+":"+clauseLabel(r, i), site, t, r.Src)
	}
	g.noteAssumption("the precondition of " + shortName(FullName(fn)) + " is proved where the closure is handed to " + to + "; that " + to + " calls it in that state (synchronously, before it returns) is assumed")
}
