package govc

import (
	"fmt"

	"golang.org/x/tools/go/ssa"
)

func globalHeldVar(gl *ssa.Global) string { return "G.gheld." + gl.Pkg.Pkg.Path() + "." + gl.Name() }

func (e *Engine) isGlobalLock(gl *ssa.Global) bool {
	for _, d := range e.DB.GlobalLocks {
		if d.Pkg == gl.Pkg.Pkg.Path() && d.Lock == gl.Name() {
			return true
		}
	}
	return false
}

// globalLockCheck: an access to a package variable declared "globallock v by m" needs m held
func (g *vcgen) globalLockCheck(gl *ssa.Global, what string) {
	for _, d := range g.eng.DB.GlobalLocks {
		if d.Pkg != gl.Pkg.Pkg.Path() || d.Var != gl.Name() {
			continue
		}
		if g.fn.Name() == "init" || g.fn.Synthetic != "" {
			return // package initialisation runs before any other goroutine exists
		}
		goal := "false"
		if lk := gl.Pkg.Var(d.Lock); lk != nil {
			hv := globalHeldVar(lk)
			g.stateVar(hv, "Bool")
			goal = g.get(g.st, hv)
			if !g.declared["gheld0:"+hv] {
				g.declared["gheld0:"+hv] = true
				g.emit(fmt.Sprintf("(assert (not %s))", g.base(hv))) // not held on entry
			}
		}
		g.obligeAt("monitor/held", "global "+gl.Name(), g.callSite(what+" "+gl.Name()), goal, d.Src+": "+what+" of "+gl.Name()+" without "+d.Lock+" held")
	}
}
