#!/usr/bin/env python3
# dev aid: find the first assertion prefix that makes an SMT file unsat
import sys,subprocess,re
src=open(sys.argv[1]).read().split('\n')
idx=[i for i,l in enumerate(src) if l.startswith('(assert')]
def run(n):
    keep=set(idx[:n])
    body=[l for i,l in enumerate(src) if (i not in idx or i in keep) and not l.startswith('(check-sat') and not l.startswith('(get-value')]
    p=subprocess.run(['cvc5','--tlimit=10000'],input='\n'.join(body)+'\n(check-sat)\n',capture_output=True,text=True)
    return p.stdout.strip().split('\n')[0]
lo,hi=0,len(idx)
print('all:',run(hi))
while lo<hi:
    mid=(lo+hi)//2
    if run(mid+1)=='unsat': hi=mid
    else: lo=mid+1
print('first unsat at assertion',lo, src[idx[lo]] if lo<len(idx) else None)
