#!/usr/bin/env python3
# Prints the Appendix G.1 table of one seeded round (markdown) from /verif/seeded/*/meta.json and seeded/RESULTS.json
# (written by tools_seeded.py). usage: tools_design_g1.py <round>
import json,os,sys
rnd=int(sys.argv[1])
res=json.load(open('/verif/seeded/RESULTS.json')) if os.path.exists('/verif/seeded/RESULTS.json') else {}
print(f'| seeded change (round {rnd}) | property | what it does | detection |')
print('|---|---|---|---|')
for d in sorted(os.listdir('/verif/seeded')):
    mp=f'/verif/seeded/{d}/meta.json'
    if not os.path.exists(mp): continue
    m=json.load(open(mp))
    if m.get('round')!=rnd: continue
    r=res.get(d,{}).get(m['property'],{})
    ob=r.get('obligations','').split(';')[0].strip()
    if m.get('note'):
        det=m['note']+(f' — now fails `{ob}`' if ob and r.get('exit')=='exit=1' else '')
    else:
        det='detected by the check of its property as built'+(f' (`{ob}`)' if ob else '')
    print(f"| {d} | {m['property']} | {m['summary']} | {det} |".replace('\n',' '))
