#!/usr/bin/env python3
# usage: tools_mkmutant.py <prop> <name> <file> <old> <new> [<file> <old> <new> ...]
# Creates /verif/mutants/<prop>/<name>.patch from exact-string replacements in /repo, or in the tree named by MKMUT_REPO (working tree is left unchanged).
import sys,subprocess,os
REPO=os.environ.get('MKMUT_REPO','/repo')  # a scratch worktree may be given while a long run uses /repo
prop,name=sys.argv[1],sys.argv[2]
args=sys.argv[3:]
assert subprocess.run(['git','-C',REPO,'status','--porcelain'],capture_output=True,text=True).stdout.strip()=='' , "repo not clean"
for i in range(0,len(args),3):
    f,old,new=args[i:i+3]
    p=os.path.join(REPO,f); s=open(p).read()
    assert s.count(old)>=1,(f,old)
    s=s.replace(old,new,1); open(p,'w').write(s)
d=subprocess.run(['git','-C',REPO,'diff'],capture_output=True,text=True).stdout
os.makedirs(f'/verif/mutants/{prop}',exist_ok=True)
open(f'/verif/mutants/{prop}/{name}.patch','w').write(d)
subprocess.run(['git','-C',REPO,'checkout','--','.'],check=True)
print('wrote',f'/verif/mutants/{prop}/{name}.patch',len(d),'bytes')
