#!/usr/bin/env python3
# regenerates MANIFEST.json from props.json + manifest_meta.json (claimed properties) and properties.jsonl
import json,subprocess
props=[json.loads(l) for l in open('/verif/properties.jsonl')]
cfg={p['id']:p for p in json.load(open('/verif/props.json'))}
meta=json.load(open('/verif/manifest_meta.json'))
hooks=subprocess.run(['git','-C','/repo','log','--format=%H %s'],capture_output=True,text=True).stdout.strip().split('\n')
hook_commits=[l.split()[0] for l in hooks if ' verif hook' in l]
checks=[];na=[]
for p in props:
    i=p['id']
    if i in meta.get('claimed',{}):
        m=meta['claimed'][i]
        checks.append({"property_id":i,"quick_cmd":f"./check {i} --tier quick","thorough_cmd":f"./check {i} --tier thorough",
          "evidence_file":f"/verif/evidence/{i}.json","replay_cmd_template":"./check replay {path}","engine":"govc",
          "level_claimed":{"category":"proof","text":m['text'],"design_ref":m.get('design_ref','DESIGN.md section 4')},
          "level_note":m['note'],"technique":cfg[i]['technique']})
    else:
        na.append({"property_id":i,"reason":meta.get('not_applicable',{}).get(i,"not yet built (contract-based check under construction; see DESIGN.md section 8)")})
man={"version":1,
 "setup_cmd":"cd /verif/govc && GOFLAGS=-mod=mod GOPROXY=off GOSUMDB=off GOTOOLCHAIN=local go build -o /verif/bin/govc ./cmd/govc",
 "hooks":{"guard":"verif","enable":"contract files /repo/**/zz_verif_contracts.go carry '//go:build verif' and contain comments only; the checker loads /repo with -tags=verif","baseline_off_cmd":"cd /repo && go test -vet=off -count=1 ./...","source_commits":hook_commits,"add_only":True},
 "engines":[{"name":"govc","path":"/verif/govc","serves_properties":sorted(meta.get('claimed',{}).keys()),"kind_free_text":"self-written verification-condition generator over go/ssa of /repo's working tree; contracts in guarded comment-only files in /repo; obligations discharged by racing z3 4.8.12 / z3 5.1.0 / cvc5 1.0.3"}],
 "checks":checks,
 "notes":"contract-based deductive verification; see DESIGN.md. Known findings in /verif/known_findings.txt.",
 "not_applicable":na}
json.dump(man,open('/verif/MANIFEST.json','w'),indent=1)
print(len(checks),'claimed',len(na),'not applicable')
