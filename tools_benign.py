#!/usr/bin/env python3
# Applies behaviour-preserving changes (/verif/benign/<id>/*.diff) to a scratch worktree of /repo and runs the checks of every
# property that has a function under contract in a touched package: every check must stay exit 0 (no false alarm).
# usage: tools_benign.py [substr ...]      (needs a clean scratch worktree: created at /tmp/benign-wt and removed afterwards)
import json,os,re,subprocess,sys
WT='/tmp/benign-wt'
def sh(*a,**k): return subprocess.run(a,capture_output=True,text=True,**k)
sh('git','-C','/repo','worktree','remove','--force',WT)
assert sh('git','-C','/repo','worktree','add','--detach',WT,'HEAD').returncode==0
P=json.load(open('/verif/props.json'))
def pkg_of_func(f):
    m=re.match(r'(go\.amzn\.com/[^.(]+(?:/[^.(]+)*)\.',f)
    return m.group(1) if m else None
proppk={q['id']:{pkg_of_func(f) for f in q['functions']} for q in P}
only=sys.argv[1:]
rows=[]
try:
    for d in sorted(os.listdir('/verif/benign')):
        for f in sorted(os.listdir('/verif/benign/'+d)):
            if not f.endswith('.diff'): continue
            name=d+'/'+f
            if only and not any(o in name for o in only): continue
            diff='/verif/benign/'+name
            files=re.findall(r'^\+\+\+ b/(\S+)',open(diff).read(),re.M)
            pk=set()
            for x in files:
                dirn=os.path.dirname(x)
                pk.add('go.amzn.com/'+dirn if dirn.startswith('lambda') else 'go.amzn.com/'+dirn)
            props=sorted(p for p,s in proppk.items() if s & pk) or [d]
            r=sh('git','-C',WT,'apply',diff)
            if r.returncode!=0:
                rows.append((name,'-','PATCH DOES NOT APPLY',r.stderr.strip()[:80])); continue
            try:
                for p in props:
                    c=sh('/verif/check',p,'--repo',WT,'--no-evidence',cwd='/verif')
                    bad=[l.strip() for l in (c.stdout+c.stderr).splitlines() if l.startswith('VIOLATION') or l.startswith('UNDECIDED') or l.strip().startswith('obligation ') or l.startswith('  ')]
                    rows.append((name,p,'exit=%d'%c.returncode,' ; '.join(bad)[:260] if c.returncode else ''))
            finally:
                sh('git','-C',WT,'checkout','--','.'); sh('git','-C',WT,'clean','-fdq')
finally:
    sh('git','-C','/repo','worktree','remove','--force',WT)
al=[r for r in rows if r[2]!='exit=0']
for r in rows: print(' | '.join(r))
print('%d runs, %d not exit 0'%(len(rows),len(al)))
