#!/usr/bin/env python3
# Applies behaviour-preserving changes (/verif/benign/<id>/*.diff, made by sub-agents that were given only the property text) to
# scratch worktrees of /repo (HEAD, or the commit named by VERIF_REF) and runs the check of every property that has a function under contract in a touched
# package: every check must stay exit 0 (no false alarm on a harmless edit). /repo itself is not touched.
# usage: tools_benign.py [-j N] [substr ...]
import json,os,re,subprocess,sys,threading,queue
def sh(*a,**k): return subprocess.run(a,capture_output=True,text=True,**k)
args=sys.argv[1:]; J=4
FOCUS=os.environ.get('BENIGN_FOCUS')=='1'  # fewer checks per diff (see below)
OWN=os.environ.get('BENIGN_OWN')=='1'  # only the check of the property the diff was written for
if args[:1]==['-j']: J=int(args[1]); args=args[2:]
P=json.load(open('/verif/props.json'))
def pkg_of_func(f):
    m=re.match(r'(go\.amzn\.com/[^.(]+(?:/[^.(]+)*)\.',f)
    return m.group(1) if m else None
proppk={q['id']:{pkg_of_func(f) for f in q['functions']} for q in P}
jobs=queue.Queue(); rows=[]; lock=threading.Lock()
for d in sorted(os.listdir('/verif/benign')):
    for f in sorted(os.listdir('/verif/benign/'+d)):
        if f.endswith('.diff') and (not args or any(o in d+'/'+f for o in args)): jobs.put(d+'/'+f)
def worker(i):
    WT='/tmp/benign-wt-%d-%d'%(os.getpid(),i)
    assert sh('git','-C','/repo','worktree','add','--detach',WT,os.environ.get('VERIF_REF','HEAD')).returncode==0
    try:
        while True:
            try: name=jobs.get_nowait()
            except queue.Empty: return
            diff='/verif/benign/'+name
            files=re.findall(r'^\+\+\+ b/(\S+)',open(diff).read(),re.M)
            pk={'go.amzn.com/'+os.path.dirname(x) for x in files}
            props=sorted(p for p,s in proppk.items() if s & pk) or [name.split('/')[0]]
            if FOCUS:
                # only the properties that have a touched function in their set (by name, from the hunk headers and the changed
                # lines of the diff), plus the property the diff was written for
                txt=open(diff).read()
                fnames=set(re.findall(r'func (?:\([^)]*\) )?(\w+)\(',txt))
                def has(p):
                    fs=next(q['functions'] for q in P if q['id']==p)
                    return any(re.search(r'[.)]'+re.escape(fn)+r'(\$\d+)*$',f) for fn in fnames for f in fs) or any(f.endswith('*') for f in fs if pkg_of_func(f) in pk)
                props=sorted(set([p for p in props if has(p)]+[name.split('/')[0]]))
            if OWN: props=[name.split('/')[0]]
            r=sh('git','-C',WT,'apply',diff)
            if r.returncode!=0:
                with lock: rows.append((name,'-','PATCH DOES NOT APPLY',r.stderr.strip()[:80]))
                continue
            try:
                for p in props:
                    c=sh('/verif/check',p,'--repo',WT,'--no-evidence',cwd='/verif')
                    bad=[l.strip() for l in (c.stdout+c.stderr).splitlines() if l.startswith('VIOLATION') or l.startswith('UNDECIDED') or l.strip().startswith('obligation ')]
                    with lock: rows.append((name,p,'exit=%d'%c.returncode,' ; '.join(bad)[:260] if c.returncode else ''))
            finally:
                sh('git','-C',WT,'checkout','--','.'); sh('git','-C',WT,'clean','-fdq')
    finally:
        sh('git','-C','/repo','worktree','remove','--force',WT)
ts=[threading.Thread(target=worker,args=(i,)) for i in range(J)]
[t.start() for t in ts]; [t.join() for t in ts]
rows.sort()
for r in rows: print(' | '.join(r))
print('%d runs over %d changes, %d not exit 0'%(len(rows),len({r[0] for r in rows}),len([r for r in rows if r[2]!='exit=0'])))
