#!/usr/bin/env python3
# dev aid: greedy unsat-core minimisation over the (assert ...) lines of an SMT file
import sys,subprocess
src=open(sys.argv[1]).read().split('\n')
idx=[i for i,l in enumerate(src) if l.startswith('(assert')]
def run(keep):
    body=[l for i,l in enumerate(src) if (i not in idx or i in keep) and not l.startswith('(check-sat') and not l.startswith('(get-value')]
    p=subprocess.run(['cvc5','--tlimit=10000'],input='\n'.join(body)+'\n(check-sat)\n',capture_output=True,text=True)
    return p.stdout.strip().split('\n')[0]
keep=set(idx)
assert run(keep)=='unsat'
for i in idx:
    k=keep-{i}
    if run(k)=='unsat': keep=k
for i in sorted(keep): print(src[i][:700]); print()
