#!/usr/bin/env python3
# Applies every seeded change under /verif/seeded/<id>/patch.diff to a scratch worktree of /repo (HEAD, or the commit named by VERIF_REF) in turn, runs the check of
# its property against that worktree (--repo), and prints which checks caught which change. /repo itself is not touched.
import json,os,subprocess,sys
WT='/tmp/seeded-wt-%d'%os.getpid()
assert subprocess.run(['git','-C','/repo','worktree','add','--detach',WT,os.environ.get('VERIF_REF','HEAD')],capture_output=True,text=True).returncode==0
import atexit
atexit.register(lambda: subprocess.run(['git','-C','/repo','worktree','remove','--force',WT],capture_output=True))
only=sys.argv[1:] 
rows=[]
for d in sorted(os.listdir('/verif/seeded')):
    p=f'/verif/seeded/{d}'
    if not os.path.exists(p+'/patch.diff'): continue
    if only and not any(o in d for o in only): continue
    meta=json.load(open(p+'/meta.json'))
    props=[meta['property']]+meta.get('also_check',[])
    r=subprocess.run(['git','-C',WT,'apply',p+'/patch.diff'],capture_output=True,text=True)
    if r.returncode!=0:
        rows.append((d,'PATCH DOES NOT APPLY',r.stderr.strip()[:100])); continue
    try:
        for prop in props:
            c=subprocess.run(['/verif/check',prop,'--repo',WT,'--no-evidence'],capture_output=True,text=True,cwd='/verif')
            viol=[l for l in c.stdout.splitlines() if l.startswith('VIOLATION') or l.startswith('UNDECIDED')]
            obl=[l.strip() for l in c.stdout.splitlines()+c.stderr.splitlines() if l.strip().startswith('obligation ')]
            rows.append((d,prop,f'exit={c.returncode}', '; '.join(o.split(' [')[0].replace('obligation ','') for o in obl)[:300] or ' '.join(viol)[:200]))
    finally:
        subprocess.run(['git','-C',WT,'checkout','--','.'],check=True); subprocess.run(['git','-C',WT,'clean','-fdq'])
for r in rows: print(' | '.join(r))
# keep the last result per change for the tables of DESIGN Appendix G.1 (tools_design_g1.py)
RES='/verif/seeded/RESULTS.json'
try: res=json.load(open(RES))
except Exception: res={}
for r in rows:
    if len(r)==4: res.setdefault(r[0],{})[r[1]]={'exit':r[2],'obligations':r[3]}
json.dump(res,open(RES,'w'),indent=1,sort_keys=True)
